package main

import (
	"encoding/base64"
	"encoding/binary"
	"encoding/json"
	"fmt"
	"math/rand"
	"net"
	"os"
	"sort"
	"strings"
	"sync"
	"time"

	"github.com/lab5e/lospan/pkg/events/gwevents"
	"github.com/lab5e/lospan/pkg/gateway"
	"github.com/lab5e/lospan/pkg/model"
	"github.com/lab5e/lospan/pkg/protocol"
	"github.com/lab5e/lospan/pkg/server"
	"github.com/lab5e/lospan/pkg/storage"
)

// gwWorld is a real GenericPacketForwarder on a loopback UDP port, with the harness as gateways
// (sockets) and as the consumer of Output().
type gwWorld struct {
	fwd     *gateway.GenericPacketForwarder
	store   *storage.Storage
	tmpdir  string
	port    int
	socks   []*net.UDPConn
	hosts   []string
	barrier *net.UDPConn
	mu      sync.Mutex
	fwded   []server.GatewayPacket
	rcvd    []string
	lastRTT time.Duration
	btoken  uint16
}

func freeUDPPort() int {
	c, err := net.ListenUDP("udp", &net.UDPAddr{IP: net.IPv4(127, 0, 0, 1), Port: 0})
	if err != nil {
		fmt.Fprintln(os.Stderr, err)
		os.Exit(3)
	}
	p := c.LocalAddr().(*net.UDPAddr).Port
	c.Close()
	return p
}

// the forwarder binds a port chosen a moment earlier; if another process took it meanwhile, try again
func newGwWorld(noChecks bool, nsocks int) *gwWorld {
	for attempt := 0; attempt < 8; attempt++ {
		if w := tryGwWorld(noChecks, nsocks); w != nil {
			return w
		}
		time.Sleep(50 * time.Millisecond)
	}
	fmt.Fprintln(os.Stderr, "forwarder did not start")
	os.Exit(3)
	return nil
}

func tryGwWorld(noChecks bool, nsocks int) *gwWorld {
	dir, _ := os.MkdirTemp(scratchDir(), "verifgw")
	st, err := storage.CreateStorage("file:" + dir + "/db.sqlite?_pragma=busy_timeout(20000)&_pragma=synchronous(off)")
	if err != nil {
		fmt.Fprintln(os.Stderr, err)
		os.Exit(3)
	}
	gwRouter := server.NewEventRouter[protocol.EUI, gwevents.GwEvent](16)
	cfg := server.Parameters{DisableGatewayChecks: noChecks}
	ctx := &server.Context{Storage: st, Config: &cfg, GwEventRouter: &gwRouter}
	w := &gwWorld{store: st, tmpdir: dir, port: freeUDPPort()}
	w.fwd = gateway.NewGenericPacketForwarder(w.port, st, ctx)
	go w.fwd.Start()
	go func() {
		for p := range w.fwd.Output() {
			w.mu.Lock()
			w.fwded = append(w.fwded, p)
			w.mu.Unlock()
		}
	}()
	mk := func() *net.UDPConn {
		c, err := net.ListenUDP("udp", &net.UDPAddr{IP: net.IPv4(127, 0, 0, 1), Port: 0})
		if err != nil {
			fmt.Fprintln(os.Stderr, err)
			os.Exit(3)
		}
		return c
	}
	for i := 0; i < nsocks; i++ {
		c := mk()
		host := "127.0.0.1"
		if i == nsocks-1 {
			// the last gateway socket sends from the IPv6 loopback address when there is one
			if c6, err := net.ListenUDP("udp", &net.UDPAddr{IP: net.ParseIP("::1"), Port: 0}); err == nil {
				c.Close()
				c, host = c6, "::1"
			}
		}
		w.hosts = append(w.hosts, host)
		w.socks = append(w.socks, c)
		// one reader per socket: whatever arrives is recorded at once
		go func(i int, c *net.UDPConn) {
			buf := make([]byte, 65536)
			for {
				n, _, err := c.ReadFromUDP(buf)
				if err != nil {
					return
				}
				s := fmt.Sprintf("%d:%s", i, renderDatagram(buf[:n]))
				w.mu.Lock()
				w.rcvd = append(w.rcvd, s)
				w.mu.Unlock()
			}
		}(i, c)
	}
	w.barrier = mk()
	// wait until the forwarder listens
	for i := 0; i < 60; i++ {
		if w.sync() {
			return w
		}
		time.Sleep(5 * time.Millisecond)
	}
	w.close()
	return nil
}

func (w *gwWorld) addr() *net.UDPAddr { return &net.UDPAddr{IP: net.IPv4(127, 0, 0, 1), Port: w.port} }

// the forwarder's address as seen from gateway socket i
func (w *gwWorld) addrFor(i int) *net.UDPAddr {
	if w.hosts[i] == "::1" {
		return &net.UDPAddr{IP: net.ParseIP("::1"), Port: w.port}
	}
	return w.addr()
}

// barrier: a PULL_DATA with a reserved EUI from a dedicated socket; when its PULL_ACK is back, everything the
// single-threaded main loop did for earlier datagrams has been sent
func (w *gwWorld) sync() bool {
	w.btoken++
	pkt := []byte{2, byte(w.btoken >> 8), byte(w.btoken), 2, 0xff, 0xff, 0xff, 0xff, 0xff, 0xff, 0xff, 0xfe}
	t0 := time.Now()
	defer func() { w.lastRTT = time.Since(t0) }()
	w.barrier.WriteToUDP(pkt, w.addr())
	buf := make([]byte, 64)
	deadline := time.Now().Add(3 * time.Second)
	for time.Now().Before(deadline) {
		w.barrier.SetReadDeadline(time.Now().Add(200 * time.Millisecond))
		n, _, err := w.barrier.ReadFromUDP(buf)
		if err == nil && n == 4 && buf[3] == 4 && buf[1] == byte(w.btoken>>8) && buf[2] == byte(w.btoken) {
			return true
		}
		if err != nil {
			w.barrier.WriteToUDP(pkt, w.addr())
		}
	}
	return false
}

// everything the sockets received, and everything handed to the pipeline, since the last call
func (w *gwWorld) collect() ([]string, []server.GatewayPacket) {
	// the barrier's acknowledgement is sent after everything else, but to another socket: give the
	// kernel and the reader goroutines a moment (a mismatch is re-run by bin/check before it is believed)
	grace := 4*time.Millisecond + 3*w.lastRTT // on a loaded machine the reader goroutines are late as well
	if grace > 300*time.Millisecond {
		grace = 300 * time.Millisecond
	}
	time.Sleep(grace)
	w.mu.Lock()
	got := w.rcvd
	w.rcvd = nil
	f := w.fwded
	w.fwded = nil
	w.mu.Unlock()
	sort.Strings(got)
	return got, f
}

func (w *gwWorld) close() {
	w.fwd.Stop()
	for _, c := range w.socks {
		c.Close()
	}
	w.barrier.Close()
	w.store.VerifCloseDB()
	os.RemoveAll(w.tmpdir)
}

// canonical form of a datagram sent by the forwarder: acks as hex, PULL_RESP with its JSON keys
func renderDatagram(b []byte) string {
	if len(b) >= 4 && b[3] == 3 {
		var doc map[string]map[string]json.RawMessage
		if err := json.Unmarshal(b[4:], &doc); err != nil {
			return "PR:badjson"
		}
		tx := doc["txpk"]
		keys := make([]string, 0, len(tx))
		for k := range tx {
			keys = append(keys, k)
		}
		sort.Strings(keys)
		var parts []string
		for _, k := range keys {
			v := string(tx[k])
			if k == "data" {
				var s string
				json.Unmarshal(tx[k], &s)
				raw, _ := base64.StdEncoding.DecodeString(s)
				v = hx(raw)
			}
			parts = append(parts, k+"="+strings.Trim(v, "\""))
		}
		return fmt.Sprintf("PR:%d:{%s}", b[0], strings.Join(parts, ","))
	}
	return hx(b)
}

type rxEntry struct {
	tmst       uint32
	ch, rfch   uint8
	datr       string
	rssi       int32
	lsnr       string
	data       []byte
	badB64     bool
	extraField bool
	omit       int // bit set of optional numeric keys left out of the entry: 1 rssi, 2 lsnr, 4 tmst, 8 chan, 16 rfch
}

func entryJSON(e rxEntry) string {
	d := base64.StdEncoding.EncodeToString(e.data)
	if e.badB64 {
		d = "!!" + d + "*"
	}
	extra := ""
	if e.extraField {
		extra = `,"foo":{"bar":[1,2,3]}`
	}
	if e.omit == 0 {
		return fmt.Sprintf(`{"time":"2017-02-01T23:55:55.233Z","tmst":%d,"freq":868.1,"chan":%d,"rfch":%d,"modu":"LORA","datr":"%s","codr":"4/5","rssi":%d,"lsnr":%s,"size":%d,"data":"%s"%s}`,
			e.tmst, e.ch, e.rfch, e.datr, e.rssi, e.lsnr, len(e.data), d, extra)
	}
	// an entry that leaves optional keys out (FSK entries carry no lsnr, the per-antenna layout no top-level rssi/lsnr):
	// each missing key reads as the zero value, whatever earlier datagrams carried
	parts := []string{`"time":"2017-02-01T23:55:55.233Z"`}
	if e.omit&4 == 0 {
		parts = append(parts, fmt.Sprintf(`"tmst":%d`, e.tmst))
	}
	parts = append(parts, `"freq":868.1`)
	if e.omit&8 == 0 {
		parts = append(parts, fmt.Sprintf(`"chan":%d`, e.ch))
	}
	if e.omit&16 == 0 {
		parts = append(parts, fmt.Sprintf(`"rfch":%d`, e.rfch))
	}
	parts = append(parts, `"modu":"LORA"`, fmt.Sprintf(`"datr":"%s"`, e.datr), `"codr":"4/5"`)
	if e.omit&1 == 0 {
		parts = append(parts, fmt.Sprintf(`"rssi":%d`, e.rssi))
	}
	if e.omit&2 == 0 {
		parts = append(parts, fmt.Sprintf(`"lsnr":%s`, e.lsnr))
	}
	parts = append(parts, fmt.Sprintf(`"size":%d`, len(e.data)), fmt.Sprintf(`"data":"%s"`, d))
	return "{" + strings.Join(parts, ",") + extra + "}"
}

// the values the entry's keys read as
func (e rxEntry) effective() rxEntry {
	if e.omit&1 != 0 {
		e.rssi = 0
	}
	if e.omit&2 != 0 {
		e.lsnr = "0"
	}
	if e.omit&4 != 0 {
		e.tmst = 0
	}
	if e.omit&8 != 0 {
		e.ch = 0
	}
	if e.omit&16 != 0 {
		e.rfch = 0
	}
	return e
}

func header(ver byte, token uint16, ident byte, eui uint64) []byte {
	b := []byte{ver, byte(token >> 8), byte(token), ident}
	if ident == 0 || ident == 2 {
		b = binary.BigEndian.AppendUint64(b, eui)
	}
	return b
}

func fwdStr(p server.GatewayPacket) string {
	return fmt.Sprintf("F:%d:%d:%s:%d:%v:%d:%x:%s:%d:%d:%v:%s", p.Radio.Channel, p.Radio.RFChain, p.Radio.DataRate, p.Radio.RSSI, p.Radio.SNR,
		p.Gateway.GatewayClock, uint64(p.Gateway.GatewayEUI.ToInt64()), p.Gateway.GatewayHost, p.Gateway.GatewayPort, p.Gateway.ProtocolVersion,
		p.Radio.Frequency, hx(p.RawMessage))
}

// one history of registry operations, datagrams and downlinks
func runGwHistory(rng *rand.Rand, w *Writer, suite string, malformed bool) {
	noChecks := rng.Intn(5) == 0
	gw := newGwWorld(noChecks, 3)
	defer gw.close()
	euis := []uint64{genEUI(rng), genEUI(rng), genEUI(rng)}
	var ports []string
	for i, c := range gw.socks {
		ports = append(ports, fmt.Sprintf("%s@%d", gw.hosts[i], c.LocalAddr().(*net.UDPAddr).Port))
	}
	var events, obs []string
	step := func(ev string, opaque bool) {
		ok := gw.sync()
		got, f := gw.collect()
		var fs []string
		for _, p := range f {
			fs = append(fs, fwdStr(p))
		}
		o := "[" + strings.Join(got, " ") + "] "
		if opaque {
			o += "F?"
		} else {
			o += "[" + strings.Join(fs, " ") + "]"
		}
		if !ok {
			o = "HUNG"
		}
		events = append(events, ev)
		obs = append(obs, o)
	}
	n := 10 + rng.Intn(20)
	for i := 0; i < n; i++ {
		e := euis[rng.Intn(len(euis))]
		switch r := rng.Intn(12); {
		case r < 2: // registry operation
			ip := []string{"127.0.0.1", "127.0.0.2", "10.1.2.3", "::1", "2001:db8::1", "::1", "127.0.0.1"}[rng.Intn(7)]
			strict := rng.Intn(2) == 0
			g := model.Gateway{GatewayEUI: eui64(e), IP: net.ParseIP(ip), StrictIP: strict, Latitude: 1, Longitude: 2, Altitude: 3}
			var err error
			op := []string{"REG", "UPD", "DEL"}[rng.Intn(3)]
			switch op {
			case "REG":
				err = gw.store.CreateGateway(g)
			case "UPD":
				err = gw.store.UpdateGateway(g)
			default:
				err = gw.store.DeleteGateway(eui64(e))
			}
			events = append(events, fmt.Sprintf("%s,%x,%s,%d", op, e, net.ParseIP(ip).String(), b01(strict)))
			obs = append(obs, fmt.Sprintf("R%d", b01(err == nil)))
			w.Count("gw.registry." + op)
			// the change must be in force for the very next datagram: probe from every socket
			if rng.Intn(2) == 0 {
				for si := range gw.socks {
					tok := someToken(rng)
					en := rxEntry{tmst: rng.Uint32(), ch: uint8(rng.Intn(8)), datr: datrs[rng.Intn(len(datrs))], rssi: -50, lsnr: "7.25", data: randBytes(rng, 1+rng.Intn(20))}
					pkt := append(header(2, tok, 0, e), []byte(`{"rxpk":[`+entryJSON(en)+`]}`)...)
					w.Begin(suite + " datagram " + hx(pkt))
					gw.socks[si].WriteToUDP(pkt, gw.addrFor(si))
					step(fmt.Sprintf("G,%d,%s,valid,%d/%d/%d/%s/%d/%s/%s", si, hx(pkt), en.tmst, en.ch, en.rfch, en.datr, en.rssi, en.lsnr, hx(en.data)), false)
					w.Count("gw.push_data.probe")
				}
			}
		case r < 4: // PULL_DATA
			si := rng.Intn(len(gw.socks))
			tok := someToken(rng)
			ver := byte(1 + rng.Intn(2))
			pkt := header(ver, tok, 2, e)
			if rng.Intn(6) == 0 {
				pkt = append(pkt, randBytes(rng, rng.Intn(5))...) // trailing bytes are ignored
			}
			w.Begin(suite + " datagram " + hx(pkt))
			gw.socks[si].WriteToUDP(pkt, gw.addrFor(si))
			step(fmt.Sprintf("G,%d,%s,-", si, hx(pkt)), false)
			w.Count("gw.pull_data")
		case r < 9: // PUSH_DATA with 0..4 entries
			si := rng.Intn(len(gw.socks))
			tok := someToken(rng)
			ver := byte(1 + rng.Intn(2))
			ne := rng.Intn(5)
			var ents []string
			var js []string
			for k := 0; k < ne; k++ {
				en := rxEntry{tmst: []uint32{0, 1, 4293967295, 4293967296, 4289967296, 4294967295, rng.Uint32()}[rng.Intn(7)], ch: uint8([]int{8, 9, 255, 7, 128, rng.Intn(256)}[rng.Intn(6)]), rfch: uint8(rng.Intn(2)),
					datr: datrs[rng.Intn(len(datrs))], rssi: int32(rng.Intn(300) - 200), lsnr: []string{"0", "-20", "9.5", "7.25", "-11.5"}[rng.Intn(5)],
					data: randBytes(rng, rng.Intn(40)), badB64: rng.Intn(12) == 0, extraField: rng.Intn(8) == 0}
				if rng.Intn(3) != 0 {
					en.ch = uint8(rng.Intn(8))
				}
				if rng.Intn(5) == 0 {
					en.omit = 1 + rng.Intn(31)
					w.Count("gw.entry-with-omitted-keys")
				}
				js = append(js, entryJSON(en))
				en = en.effective()
				d := hx(en.data)
				if en.badB64 {
					d = "!"
				}
				ents = append(ents, fmt.Sprintf("%d/%d/%d/%s/%d/%s/%s", en.tmst, en.ch, en.rfch, en.datr, en.rssi, en.lsnr, d))
			}
			body := `{"rxpk":[` + strings.Join(js, ",") + `]}`
			cls := "valid"
			opaque := false
			if rng.Intn(10) == 0 {
				body = `{"stat":{"time":"2014-01-12 08:59:28 GMT","rxnb":2,"rxok":2,"rxfw":2,"ackr":100.0,"dwnb":2,"txnb":2}}`
				cls = "norxpk"
				ents = nil
			} else if malformed && rng.Intn(3) == 0 {
				// near-valid JSON mutated: the abstract outcome is not predicted, only acknowledgements are compared
				bb := []byte(body)
				switch rng.Intn(5) {
				case 0:
					bb = bb[:rng.Intn(len(bb)+1)]
				case 1:
					bb[rng.Intn(len(bb))] = byte(rng.Intn(256))
				case 2:
					body = strings.Replace(body, `"tmst":`, `"tmst":99999999999999999999`, 1)
					bb = []byte(body)
				case 3:
					body = strings.Replace(body, `"chan":`, `"chan":-1`, 1)
					bb = []byte(body)
				default:
					bb = randBytes(rng, rng.Intn(60))
				}
				body = string(bb)
				cls = "opaque"
				opaque = true
			}
			pkt := append(header(ver, tok, 0, e), []byte(body)...)
			w.Begin(suite + " datagram " + hx(pkt))
			gw.socks[si].WriteToUDP(pkt, gw.addrFor(si))
			step(fmt.Sprintf("G,%d,%s,%s,%s", si, hx(pkt), cls, strings.Join(ents, ";")), opaque)
			w.Count("gw.push_data." + cls)
		case r < 10: // other / malformed datagrams
			si := rng.Intn(len(gw.socks))
			var pkt []byte
			switch rng.Intn(5) {
			case 0:
				pkt = randBytes(rng, rng.Intn(16))
			case 1:
				pkt = header(byte(rng.Intn(3)), uint16(rng.Intn(65536)), byte([]int{1, 3, 4, 5, 6, 99, 255}[rng.Intn(7)]), e)
				pkt = append(pkt, randBytes(rng, rng.Intn(20))...)
			case 2:
				h := header(2, 7, byte(rng.Intn(3)), e)
				pkt = h[:rng.Intn(len(h))] // short headers
			case 3:
				pkt = append(header(2, uint16(rng.Intn(65536)), 5, e), []byte(`{"txpk_ack":{"error":"NONE"}}`)...)
			default:
				pkt = randBytes(rng, 200+rng.Intn(2000))
			}
			w.Begin(suite + " datagram " + hx(pkt))
			gw.socks[si].WriteToUDP(pkt, gw.addrFor(si))
			step(fmt.Sprintf("G,%d,%s,-", si, hx(pkt)), false)
			w.Count("gw.other")
		default: // a downlink handed to the forwarder
			clock := []uint32{0, 1, 4293967295, 4293967296, 4289967296, 4294967295, rng.Uint32()}[rng.Intn(7)]
			delay := uint8([]int{1, 5, 1, 5, 0, 2}[rng.Intn(6)])
			ch := uint8(rng.Intn(8))
			freq := []float32{868.1, 868.3, 868.5, 867.1, 867.3, 867.5, 867.7, 867.9}[ch]
			datr := datrs[rng.Intn(len(datrs))]
			raw := randBytes(rng, 12+rng.Intn(40))
			ver := byte(1 + rng.Intn(2))
			dlhost := gw.hosts[rng.Intn(len(gw.hosts))]
			p := server.GatewayPacket{RawMessage: raw,
				Radio:      server.RadioContext{Channel: ch, Frequency: freq, DataRate: datr, RX1Delay: delay},
				Gateway:    server.GatewayContext{GatewayEUI: eui64(e), GatewayHost: dlhost, GatewayClock: clock, ProtocolVersion: ver},
				ReceivedAt: time.Now(), Deadline: float64(delay)}
			gw.fwd.Input() <- p
			step(fmt.Sprintf("DL,%x,%d,%d,%v,%s,%d,%s,%s", e, clock, delay, freq, datr, ver, hx(raw), dlhost), false)
			w.Count("gw.downlink")
		}
	}
	w.Case(suite, []string{kv("nochecks", noChecks), "socks=" + strings.Join(ports, ","), "ev=" + strings.Join(events, "|")}, strings.Join(obs, "|"))
}

func gwSuite(name string, malformed bool, quickN, thoroughN int) suiteFunc {
	return func(rng *rand.Rand, tier string, w *Writer) {
		n := quickN
		if tier == "thorough" {
			n = thoroughN
		}
		for i := 0; i < n; i++ {
			runGwHistory(rng, w, "gw"+name, malformed)
		}
	}
}

func init() {
	suites["C15"] = gwSuite("C15", false, 60, 1500)
	suites["C16"] = gwSuite("C16", false, 60, 1500)
	suites["C17"] = gwSuite("C17", false, 60, 1500)
	extraC11 = append(extraC11, gwSuite("C11", true, 40, 800))
}

// request tokens: mostly random, with the edges of the 16-bit space and byte-asymmetric values mixed in
func someToken(rng *rand.Rand) uint16 {
	if rng.Intn(4) == 0 {
		return []uint16{0x0000, 0xffff, 0x00ff, 0xff00, 0x0001, 0x0100, 0x8000, 0x0080}[rng.Intn(8)]
	}
	return uint16(rng.Intn(65536))
}
