package main

import (
	"encoding/base64"
	"encoding/binary"
	"encoding/json"
	"errors"
	"fmt"
	"math/rand"
	"net"
	"os"
	"sort"
	"strings"
	"time"

	"github.com/lab5e/lospan/pkg/events/gwevents"
	"github.com/lab5e/lospan/pkg/gateway"
	"github.com/lab5e/lospan/pkg/model"
	"github.com/lab5e/lospan/pkg/protocol"
	"github.com/lab5e/lospan/pkg/server"
	"github.com/lab5e/lospan/pkg/storage"
	"github.com/lab5e/lospan/pkg/verifgate"
	"sync/atomic"
)

// gwWorld is a real GenericPacketForwarder on a loopback UDP port, with the harness as gateways
// (sockets) and as the consumer of Output().
type gwWorld struct {
	fwd    *gateway.GenericPacketForwarder
	store  *storage.Storage
	tmpdir string
	port   int
	socks  []*net.UDPConn
	hosts  []string
	btoken uint16
	inbox  []chan []byte // what each gateway socket received, in order
	stash  []string      // datagrams seen while waiting for the barriers
	stashF []server.GatewayPacket
}

// Ports for the forwarder are taken from below the kernel's ephemeral range, spread by process id, so that neither the
// gateway sockets of this process nor those of a harness running at the same time are ever given the port between its
// choice and the forwarder's bind.
var gwPortSeq = os.Getpid() * 131

func nextGwPort() int {
	gwPortSeq += 7
	return 12000 + gwPortSeq%18000
}

var barrierEUI = protocol.EUIFromInt64(-2) // ff-ff-ff-ff-ff-ff-ff-fe

// the forwarder binds the port itself; if it cannot (taken by a harness running at the same time), the next port is tried
func newGwWorld(noChecks bool, nsocks int) *gwWorld {
	for attempt := 0; attempt < 40; attempt++ {
		if w := tryGwWorld(noChecks, nsocks); w != nil {
			return w
		}
	}
	fmt.Fprintln(os.Stderr, "forwarder did not start")
	os.Exit(3)
	return nil
}

func tryGwWorld(noChecks bool, nsocks int) *gwWorld {
	dir, _ := os.MkdirTemp(scratchDir(), "verifgw")
	st, err := storage.CreateStorage("file:" + dir + "/db.sqlite?_pragma=busy_timeout(20000)&_pragma=synchronous(off)")
	if err != nil {
		fmt.Fprintln(os.Stderr, err)
		os.Exit(3)
	}
	// The barrier's gateway is registered (any address): its keep-alives start and end every step, and a forwarder that
	// turned unregistered gateways' PULL_DATA away would otherwise stop the harness instead of being compared with the model,
	// where such a PULL_DATA from one of the histories' own gateways is acknowledged.
	st.CreateGateway(model.Gateway{GatewayEUI: barrierEUI, IP: net.ParseIP("127.0.0.1"), StrictIP: false})
	gwRouter := server.NewEventRouter[protocol.EUI, gwevents.GwEvent](16)
	cfg := server.Parameters{DisableGatewayChecks: noChecks}
	ctx := &server.Context{Storage: st, Config: &cfg, GwEventRouter: &gwRouter}
	w := &gwWorld{store: st, tmpdir: dir, port: nextGwPort()}
	w.fwd = gateway.NewGenericPacketForwarder(w.port, st, ctx)
	go w.fwd.Start()
	// Gateway sockets are connected to the forwarder's address: the kernel hands them only what comes from that
	// address and port - not a late PULL_RESP of an earlier forwarder to a port number that was handed out again, nor
	// datagrams of a harness running at the same time.
	for i := 0; i < nsocks; i++ {
		host := "127.0.0.1"
		var c *net.UDPConn
		if i == nsocks-1 {
			// the last gateway socket sends from the IPv6 loopback address when there is one
			if c6, err := net.DialUDP("udp", nil, &net.UDPAddr{IP: net.ParseIP("::1"), Port: w.port}); err == nil {
				c, host = c6, "::1"
			}
		}
		if c == nil {
			c4, err := net.DialUDP("udp", &net.UDPAddr{IP: net.IPv4(127, 0, 0, 1), Port: 0}, &net.UDPAddr{IP: net.IPv4(127, 0, 0, 1), Port: w.port})
			if err != nil {
				fmt.Fprintln(os.Stderr, err)
				os.Exit(3)
			}
			c = c4
		}
		w.hosts = append(w.hosts, host)
		w.socks = append(w.socks, c)
		// one reader per socket: whatever arrives is passed on in order
		ch := make(chan []byte, 4096)
		w.inbox = append(w.inbox, ch)
		go func(c *net.UDPConn, ch chan []byte) {
			buf := make([]byte, 65536)
			for {
				n, err := c.Read(buf)
				if err != nil {
					if errors.Is(err, net.ErrClosed) {
						return
					}
					// "connection refused" while the forwarder is not listening yet
					time.Sleep(time.Millisecond)
					continue
				}
				ch <- append([]byte{}, buf[:n]...)
			}
		}(c, ch)
	}
	// Wait until the forwarder listens - and make sure it is THIS forwarder that answers (a harness running at the same
	// time may have bound the port first, in which case ours could not): our forwarder reports a keep-alive for the
	// barrier's EUI on our own event router.
	alive := gwRouter.Subscribe(barrierEUI)
	ok := w.sync()
	mine := false
	if ok {
		select {
		case <-alive:
			mine = true
		case <-time.After(2 * time.Second):
		}
	}
	gwRouter.Unsubscribe(alive)
	if !ok || !mine {
		w.close()
		return nil
	}
	w.stash, w.stashF = nil, nil
	return w
}

// what gateway socket i sends
func (w *gwWorld) send(i int, pkt []byte) { w.socks[i].Write(pkt) }

// Barriers. Each gateway socket sends, after the step's datagram, a PULL_DATA of its own (reserved EUI, protocol
// version 0x7e, which no generated datagram uses). The forwarder's single-threaded main loop answers in order and its
// one sender goroutine writes in order, so everything a socket receives before its barrier's PULL_ACK belongs to this
// step, and once every socket has seen its PULL_ACK nothing of this step is still to come. The forwarder's Output() is
// read here too (it is unbuffered: the main loop hands a packet over before it acknowledges the datagram that carried
// it). No sleeps; a barrier that gets no answer within 300 ms is sent again.
func (w *gwWorld) sync() bool {
	w.btoken++
	want := []byte{0x7e, byte(w.btoken >> 8), byte(w.btoken), 4}
	pkt := []byte{0x7e, byte(w.btoken >> 8), byte(w.btoken), 2, 0xff, 0xff, 0xff, 0xff, 0xff, 0xff, 0xff, 0xfe}
	for i := range w.socks {
		w.send(i, pkt)
	}
	pending := len(w.socks)
	done := make([]bool, len(w.socks))
	deadline := time.After(5 * time.Second)
	if gwDegraded {
		deadline = time.After(300 * time.Millisecond)
	}
	resend := time.After(300 * time.Millisecond)
	answered := false
	take := func(i int, b []byte) {
		if len(b) == 4 && b[0] == want[0] && b[1] == want[1] && b[2] == want[2] && b[3] == want[3] {
			if !answered && !gwDegraded {
				// the forwarder is there and working: what it still owes arrives within a fraction of this
				answered = true
				deadline = time.After(1500 * time.Millisecond)
			}
			if !done[i] {
				done[i] = true
				pending--
			}
			return
		}
		if len(b) == 4 && b[0] == 0x7e && b[3] == 4 {
			return // the acknowledgement of an earlier, repeated barrier
		}
		w.stash = append(w.stash, fmt.Sprintf("%d:%s", i, renderDatagram(b)))
	}
	n := len(w.inbox)
	for pending > 0 {
		select {
		case b := <-w.inbox[0]:
			take(0, b)
		case b := <-w.inbox[1%n]:
			take(1%n, b)
		case b := <-w.inbox[2%n]:
			take(2%n, b)
		case p := <-w.fwd.Output():
			w.stashF = append(w.stashF, p)
		case <-resend:
			for i := range w.socks {
				if !done[i] {
					w.send(i, pkt)
				}
			}
			resend = time.After(300 * time.Millisecond)
		case <-deadline:
			if answered || gwDegraded {
				// Acknowledgements that do not come back to the socket that asked: the forwarder under test does not
				// answer "to the sender's address" (the barriers rely on exactly that). From here on the steps end after
				// a fixed time instead, and what arrives where is left to the comparison with the model and to the oracle.
				gwDegraded = true
				return true
			}
			return false
		}
	}
	return true
}

// set once barriers stopped coming back to their sockets (see sync)
var gwDegraded bool

// armed for one datagram: the forwarder's GetGateway fails (gate hook of the storage layer)
var gwLookupFails atomic.Bool

func gwHook(op string, args ...any) error {
	if op == "GetGateway" && gwLookupFails.CompareAndSwap(true, false) {
		return errors.New("injected: registry look-up failed")
	}
	return nil
}

// everything the sockets received, and everything handed to the pipeline, up to the last barrier
func (w *gwWorld) collect() ([]string, []server.GatewayPacket) {
	got, f := w.stash, w.stashF
	w.stash, w.stashF = nil, nil
	sort.Strings(got)
	return got, f
}

func (w *gwWorld) close() {
	w.fwd.Stop()
	for _, c := range w.socks {
		c.Close()
	}
	w.store.VerifCloseDB()
	os.RemoveAll(w.tmpdir)
}

// canonical form of a datagram sent by the forwarder: acks as hex, PULL_RESP with its JSON keys
func renderDatagram(b []byte) string {
	if len(b) >= 4 && b[3] == 3 {
		var doc map[string]map[string]json.RawMessage
		if err := json.Unmarshal(b[4:], &doc); err != nil {
			return "PR:badjson"
		}
		tx := doc["txpk"]
		keys := make([]string, 0, len(tx))
		for k := range tx {
			keys = append(keys, k)
		}
		sort.Strings(keys)
		var parts []string
		for _, k := range keys {
			v := string(tx[k])
			if k == "data" {
				var s string
				json.Unmarshal(tx[k], &s)
				raw, _ := base64.StdEncoding.DecodeString(s)
				v = hx(raw)
			}
			parts = append(parts, k+"="+strings.Trim(v, "\""))
		}
		return fmt.Sprintf("PR:%d:{%s}", b[0], strings.Join(parts, ","))
	}
	return hx(b)
}

type rxEntry struct {
	tmst       uint32
	ch, rfch   uint8
	datr       string
	rssi       int32
	lsnr       string
	data       []byte
	badB64     bool
	extraField bool
	omit       int // bit set of optional numeric keys left out of the entry: 1 rssi, 2 lsnr, 4 tmst, 8 chan, 16 rfch
	size       int // the entry's "size" key when it is not the length of the data (-1: it is)
}

func entryJSON(e rxEntry) string {
	d := base64.StdEncoding.EncodeToString(e.data)
	size := len(e.data)
	if e.size >= 0 {
		size = e.size // what is forwarded is what "data" holds, whatever "size" says
	}
	if e.badB64 {
		d = "!!" + d + "*"
	}
	extra := ""
	if e.extraField {
		extra = `,"foo":{"bar":[1,2,3]}`
	}
	if e.omit == 0 {
		return fmt.Sprintf(`{"time":"2017-02-01T23:55:55.233Z","tmst":%d,"freq":868.1,"chan":%d,"rfch":%d,"modu":"LORA","datr":"%s","codr":"4/5","rssi":%d,"lsnr":%s,"size":%d,"data":"%s"%s}`,
			e.tmst, e.ch, e.rfch, e.datr, e.rssi, e.lsnr, size, d, extra)
	}
	// an entry that leaves optional keys out (FSK entries carry no lsnr, the per-antenna layout no top-level rssi/lsnr):
	// each missing key reads as the zero value, whatever earlier datagrams carried
	parts := []string{`"time":"2017-02-01T23:55:55.233Z"`}
	if e.omit&4 == 0 {
		parts = append(parts, fmt.Sprintf(`"tmst":%d`, e.tmst))
	}
	parts = append(parts, `"freq":868.1`)
	if e.omit&8 == 0 {
		parts = append(parts, fmt.Sprintf(`"chan":%d`, e.ch))
	}
	if e.omit&16 == 0 {
		parts = append(parts, fmt.Sprintf(`"rfch":%d`, e.rfch))
	}
	parts = append(parts, `"modu":"LORA"`, fmt.Sprintf(`"datr":"%s"`, e.datr), `"codr":"4/5"`)
	if e.omit&1 == 0 {
		parts = append(parts, fmt.Sprintf(`"rssi":%d`, e.rssi))
	}
	if e.omit&2 == 0 {
		parts = append(parts, fmt.Sprintf(`"lsnr":%s`, e.lsnr))
	}
	parts = append(parts, fmt.Sprintf(`"size":%d`, size), fmt.Sprintf(`"data":"%s"`, d))
	return "{" + strings.Join(parts, ",") + extra + "}"
}

// the values the entry's keys read as
func (e rxEntry) effective() rxEntry {
	if e.omit&1 != 0 {
		e.rssi = 0
	}
	if e.omit&2 != 0 {
		e.lsnr = "0"
	}
	if e.omit&4 != 0 {
		e.tmst = 0
	}
	if e.omit&8 != 0 {
		e.ch = 0
	}
	if e.omit&16 != 0 {
		e.rfch = 0
	}
	return e
}

func header(ver byte, token uint16, ident byte, eui uint64) []byte {
	b := []byte{ver, byte(token >> 8), byte(token), ident}
	if ident == 0 || ident == 2 {
		b = binary.BigEndian.AppendUint64(b, eui)
	}
	return b
}

func fwdStr(p server.GatewayPacket) string {
	return fmt.Sprintf("F:%d:%d:%s:%d:%v:%d:%x:%s:%d:%d:%v:%s", p.Radio.Channel, p.Radio.RFChain, p.Radio.DataRate, p.Radio.RSSI, p.Radio.SNR,
		p.Gateway.GatewayClock, uint64(p.Gateway.GatewayEUI.ToInt64()), p.Gateway.GatewayHost, p.Gateway.GatewayPort, p.Gateway.ProtocolVersion,
		p.Radio.Frequency, hx(p.RawMessage))
}

// one history of registry operations, datagrams and downlinks
func runGwHistory(rng *rand.Rand, w *Writer, suite string, malformed bool) {
	noChecks := rng.Intn(5) == 0
	gw := newGwWorld(noChecks, 3)
	defer gw.close()
	verifgate.Hook = gwHook
	defer func() { verifgate.Hook = globalHook }()
	defer func() {
		if gwDegraded {
			w.Count("gw.barriers-not-answered-to-their-sockets")
		}
	}()
	euis := []uint64{genEUI(rng), genEUI(rng), genEUI(rng)}
	var ports []string
	for i, c := range gw.socks {
		ports = append(ports, fmt.Sprintf("%s@%d", gw.hosts[i], c.LocalAddr().(*net.UDPAddr).Port))
	}
	var events, obs []string
	step := func(ev string, opaque bool) {
		ok := gw.sync()
		got, f := gw.collect()
		var fs []string
		for _, p := range f {
			fs = append(fs, fwdStr(p))
		}
		o := "[" + strings.Join(got, " ") + "] "
		if opaque {
			o += "F?"
		} else {
			o += "[" + strings.Join(fs, " ") + "]"
		}
		// the receive times the forwarder stamps on the entries of one datagram are pairwise different (the inbox is keyed
		// by device and receive time: two frames of one device in one datagram must both be storable)
		for i := range f {
			for j := i + 1; j < len(f); j++ {
				if f[i].ReceivedAt.Equal(f[j].ReceivedAt) {
					o += " SAME-RECEIVE-TIME"
					i = len(f)
					break
				}
			}
		}
		if !ok {
			o = "HUNG"
		}
		events = append(events, ev)
		obs = append(obs, o)
	}
	n := 10 + rng.Intn(20)
	for i := 0; i < n; i++ {
		e := euis[rng.Intn(len(euis))]
		if rng.Intn(14) == 0 {
			// a gateway that keeps its PULL_DATA socket and acknowledges transmissions (TX_ACK, with its EUI after the
			// header as in protocol version 2) from another one: the next downlink still goes to the PULL_DATA port
			a := rng.Intn(len(gw.socks))
			b := (a + 1 + rng.Intn(len(gw.socks)-1)) % len(gw.socks)
			pull := header(2, someToken(rng), 2, e)
			w.Begin(suite + " datagram " + hx(pull))
			gw.send(a, pull)
			step(fmt.Sprintf("G,%d,%s,-", a, hx(pull)), false)
			tok := someToken(rng)
			ack := append([]byte{2, byte(tok >> 8), byte(tok), 5}, binary.BigEndian.AppendUint64(nil, e)...)
			if rng.Intn(2) == 0 {
				ack = append(ack, []byte(`{"txpk_ack":{"error":"NONE"}}`)...)
			}
			w.Begin(suite + " datagram " + hx(ack))
			gw.send(b, ack)
			step(fmt.Sprintf("G,%d,%s,-", b, hx(ack)), false)
			clock := rng.Uint32()
			ch := uint8(rng.Intn(8))
			freq := []float32{868.1, 868.3, 868.5, 867.1, 867.3, 867.5, 867.7, 867.9}[ch]
			datr := datrs[rng.Intn(len(datrs))]
			raw := randBytes(rng, 12+rng.Intn(40))
			p := server.GatewayPacket{RawMessage: raw,
				Radio:      server.RadioContext{Channel: ch, Frequency: freq, DataRate: datr, RX1Delay: 1},
				Gateway:    server.GatewayContext{GatewayEUI: eui64(e), GatewayHost: gw.hosts[a], GatewayClock: clock, ProtocolVersion: 2},
				ReceivedAt: time.Now(), Deadline: 1}
			gw.fwd.Input() <- p
			step(fmt.Sprintf("DL,%x,%d,%d,%v,%s,%d,%s,%s", e, clock, 1, freq, datr, 2, hx(raw), gw.hosts[a]), false)
			w.Count("gw.tx_ack-from-another-socket")
			continue
		}
		if rng.Intn(16) == 0 {
			// a PUSH_DATA that is nothing but its 12-byte header: acknowledged like any other, and nothing is forwarded -
			// in particular nothing of whatever datagram came before
			si := rng.Intn(len(gw.socks))
			pkt := header(byte(1+rng.Intn(2)), someToken(rng), 0, e)
			w.Begin(suite + " datagram " + hx(pkt))
			gw.send(si, pkt)
			step(fmt.Sprintf("G,%d,%s,norxpk,", si, hx(pkt)), false)
			w.Count("gw.push_data.header-only")
			continue
		}
		switch r := rng.Intn(12); {
		case r < 2: // registry operation
			ip := []string{"127.0.0.1", "127.0.0.2", "10.1.2.3", "::1", "2001:db8::1", "::1", "127.0.0.1"}[rng.Intn(7)]
			strict := rng.Intn(2) == 0
			g := model.Gateway{GatewayEUI: eui64(e), IP: net.ParseIP(ip), StrictIP: strict, Latitude: 1, Longitude: 2, Altitude: 3}
			var err error
			op := []string{"REG", "UPD", "DEL"}[rng.Intn(3)]
			switch op {
			case "REG":
				err = gw.store.CreateGateway(g)
			case "UPD":
				err = gw.store.UpdateGateway(g)
			default:
				err = gw.store.DeleteGateway(eui64(e))
			}
			events = append(events, fmt.Sprintf("%s,%x,%s,%d", op, e, net.ParseIP(ip).String(), b01(strict)))
			obs = append(obs, fmt.Sprintf("R%d", b01(err == nil)))
			w.Count("gw.registry." + op)
			// the change must be in force for the very next datagram: probe from every socket
			if rng.Intn(2) == 0 {
				for si := range gw.socks {
					tok := someToken(rng)
					en := rxEntry{tmst: rng.Uint32(), ch: uint8(rng.Intn(8)), datr: datrs[rng.Intn(len(datrs))], rssi: -50, lsnr: "7.25", data: randBytes(rng, 1+rng.Intn(20)), size: -1}
					pkt := append(header(2, tok, 0, e), []byte(`{"rxpk":[`+entryJSON(en)+`]}`)...)
					w.Begin(suite + " datagram " + hx(pkt))
					gw.send(si, pkt)
					step(fmt.Sprintf("G,%d,%s,valid,%d/%d/%d/%s/%d/%s/%s", si, hx(pkt), en.tmst, en.ch, en.rfch, en.datr, en.rssi, en.lsnr, hx(en.data)), false)
					w.Count("gw.push_data.probe")
				}
			}
		case r < 4: // PULL_DATA
			si := rng.Intn(len(gw.socks))
			tok := someToken(rng)
			ver := byte(1 + rng.Intn(2))
			pkt := header(ver, tok, 2, e)
			if rng.Intn(6) == 0 {
				pkt = append(pkt, randBytes(rng, rng.Intn(5))...) // trailing bytes are ignored
			}
			w.Begin(suite + " datagram " + hx(pkt))
			gw.send(si, pkt)
			step(fmt.Sprintf("G,%d,%s,-", si, hx(pkt)), false)
			w.Count("gw.pull_data")
		case r < 9: // PUSH_DATA with 0..4 entries
			si := rng.Intn(len(gw.socks))
			tok := someToken(rng)
			ver := byte(1 + rng.Intn(2))
			ne := rng.Intn(5)
			if rng.Intn(8) == 0 {
				// a gateway that reports many receptions at once: a datagram well beyond an Ethernet frame (below the
				// forwarder's 8192-byte read buffer)
				ne = 7 + rng.Intn(16)
				w.Count("gw.push_data.many-entries")
			}
			var ents []string
			var js []string
			for k := 0; k < ne; k++ {
				en := rxEntry{tmst: []uint32{0, 1, 4293967295, 4293967296, 4289967296, 4294967295, rng.Uint32()}[rng.Intn(7)], ch: uint8([]int{8, 9, 255, 7, 128, rng.Intn(256)}[rng.Intn(6)]), rfch: uint8(rng.Intn(2)),
					datr: datrs[rng.Intn(len(datrs))], rssi: int32(rng.Intn(300) - 200), lsnr: []string{"0", "-20", "9.5", "7.25", "-11.5"}[rng.Intn(5)],
					data: randBytes(rng, rng.Intn(40)), badB64: rng.Intn(12) == 0, extraField: rng.Intn(8) == 0, size: -1}
				if rng.Intn(6) == 0 {
					// a "size" that is not the length of the data (short: a prefix would be a different frame; long; zero)
					en.size = []int{0, rng.Intn(len(en.data) + 1), len(en.data) + 1 + rng.Intn(20), 12}[rng.Intn(4)]
					w.Count("gw.entry-with-wrong-size")
				}
				if rng.Intn(3) != 0 {
					en.ch = uint8(rng.Intn(8))
				}
				if rng.Intn(5) == 0 {
					en.omit = 1 + rng.Intn(31)
					w.Count("gw.entry-with-omitted-keys")
				}
				js = append(js, entryJSON(en))
				en = en.effective()
				d := hx(en.data)
				if en.badB64 {
					d = "!"
				}
				ents = append(ents, fmt.Sprintf("%d/%d/%d/%s/%d/%s/%s", en.tmst, en.ch, en.rfch, en.datr, en.rssi, en.lsnr, d))
			}
			body := `{"rxpk":[` + strings.Join(js, ",") + `]}`
			if rng.Intn(4) == 0 {
				// a status report in the same document as the receptions - before or after them, shaped as the reference
				// forwarder writes it or otherwise (an array, fractional or quoted numbers, null, a bare number, further
				// members): the server has no use for it and the receptions are handed on whatever it looks like
				stat := []string{
					`{"time":"2014-01-12 08:59:28 GMT","lati":46.24,"long":3.2523,"alti":145,"rxnb":2,"rxok":2,"rxfw":2,"ackr":100.0,"dwnb":2,"txnb":2}`,
					`[{"time":"2014-01-12 08:59:28 GMT","rxnb":2,"rxok":2,"rxfw":2,"ackr":100.0,"dwnb":2,"txnb":2}]`,
					`{"time":1389517168,"lati":"46.24","alti":145.5,"rxnb":-1,"rxok":2.5,"ackr":"100%","dwnb":null,"txnb":4294967296}`,
					`null`, `17`, `"ok"`, `{}`, `[]`, `{"rxpk":[{"data":"AAAA"}],"temp":21.5,"pfrm":"IMST","mail":""}`,
				}[rng.Intn(9)]
				if rng.Intn(2) == 0 {
					body = `{"stat":` + stat + `,"rxpk":[` + strings.Join(js, ",") + `]}`
				} else {
					body = `{"rxpk":[` + strings.Join(js, ",") + `],"stat":` + stat + `}`
				}
				w.Count("gw.push_data.stat-beside-rxpk")
			}
			cls := "valid"
			opaque := false
			if rng.Intn(10) == 0 {
				body = `{"stat":{"time":"2014-01-12 08:59:28 GMT","rxnb":2,"rxok":2,"rxfw":2,"ackr":100.0,"dwnb":2,"txnb":2}}`
				cls = "norxpk"
				ents = nil
			} else if malformed && rng.Intn(3) == 0 {
				// near-valid JSON mutated: the abstract outcome is not predicted, only acknowledgements are compared
				bb := []byte(body)
				switch rng.Intn(5) {
				case 0:
					bb = bb[:rng.Intn(len(bb)+1)]
				case 1:
					bb[rng.Intn(len(bb))] = byte(rng.Intn(256))
				case 2:
					body = strings.Replace(body, `"tmst":`, `"tmst":99999999999999999999`, 1)
					bb = []byte(body)
				case 3:
					body = strings.Replace(body, `"chan":`, `"chan":-1`, 1)
					bb = []byte(body)
				default:
					bb = randBytes(rng, rng.Intn(60))
				}
				body = string(bb)
				cls = "opaque"
				opaque = true
			}
			pkt := append(header(ver, tok, 0, e), []byte(body)...)
			w.Begin(suite + " datagram " + hx(pkt))
			evName := "G"
			if rng.Intn(10) == 0 {
				// the registry look-up for this datagram fails (the store is being closed, a transient error): a
				// gateway whose registration cannot be read is not served
				gwLookupFails.Store(true)
				evName = "GF"
				w.Count("gw.push_data.lookup-fails")
			}
			gw.send(si, pkt)
			step(fmt.Sprintf("%s,%d,%s,%s,%s", evName, si, hx(pkt), cls, strings.Join(ents, ";")), opaque)
			gwLookupFails.Store(false)
			w.Count("gw.push_data." + cls)
		case r < 10: // other / malformed datagrams
			si := rng.Intn(len(gw.socks))
			var pkt []byte
			switch rng.Intn(5) {
			case 0:
				pkt = randBytes(rng, rng.Intn(16))
			case 1:
				pkt = header(byte(rng.Intn(3)), uint16(rng.Intn(65536)), byte([]int{1, 3, 4, 5, 6, 99, 255}[rng.Intn(7)]), e)
				pkt = append(pkt, randBytes(rng, rng.Intn(20))...)
			case 2:
				h := header(2, 7, byte(rng.Intn(3)), e)
				pkt = h[:rng.Intn(len(h))] // short headers
			case 3:
				pkt = append(header(2, uint16(rng.Intn(65536)), 5, e), []byte(`{"txpk_ack":{"error":"NONE"}}`)...)
			default:
				pkt = randBytes(rng, 200+rng.Intn(2000))
			}
			w.Begin(suite + " datagram " + hx(pkt))
			gw.send(si, pkt)
			step(fmt.Sprintf("G,%d,%s,-", si, hx(pkt)), false)
			w.Count("gw.other")
		default: // a downlink handed to the forwarder
			clock := []uint32{0, 1, 4293967295, 4293967296, 4289967296, 4294967295, rng.Uint32()}[rng.Intn(7)]
			delay := uint8([]int{1, 5, 1, 5, 0, 2}[rng.Intn(6)])
			ch := uint8(rng.Intn(8))
			freq := []float32{868.1, 868.3, 868.5, 867.1, 867.3, 867.5, 867.7, 867.9}[ch]
			datr := datrs[rng.Intn(len(datrs))]
			raw := randBytes(rng, 12+rng.Intn(40))
			ver := byte(1 + rng.Intn(2))
			dlhost := gw.hosts[rng.Intn(len(gw.hosts))]
			p := server.GatewayPacket{RawMessage: raw,
				Radio:      server.RadioContext{Channel: ch, Frequency: freq, DataRate: datr, RX1Delay: delay},
				Gateway:    server.GatewayContext{GatewayEUI: eui64(e), GatewayHost: dlhost, GatewayClock: clock, ProtocolVersion: ver},
				ReceivedAt: time.Now(), Deadline: float64(delay)}
			gw.fwd.Input() <- p
			step(fmt.Sprintf("DL,%x,%d,%d,%v,%s,%d,%s,%s", e, clock, delay, freq, datr, ver, hx(raw), dlhost), false)
			w.Count("gw.downlink")
		}
	}
	w.Case(suite, []string{kv("nochecks", noChecks), "socks=" + strings.Join(ports, ","), "ev=" + strings.Join(events, "|")}, strings.Join(obs, "|"))
}

func gwSuite(name string, malformed bool, quickN, thoroughN int) suiteFunc {
	return func(rng *rand.Rand, tier string, w *Writer) {
		n := quickN
		if tier == "thorough" {
			n = thoroughN
		}
		for i := 0; i < n; i++ {
			runGwHistory(rng, w, "gw"+name, malformed)
		}
	}
}

func init() {
	// C01 behind the forwarder: what reaches the pipeline is what the gateway reported, byte for byte
	gw01 := gwSuite("C01", false, 15, 300)
	suites["gwC01"] = gw01
	suites["gwC02"] = gwSuite("C02", false, 12, 250)
	suites["C15"] = gwSuite("C15", false, 60, 1500)
	suites["C16"] = gwSuite("C16", false, 60, 1500)
	suites["C17"] = gwSuite("C17", false, 60, 1500)
	extraC11 = append(extraC11, gwSuite("C11", true, 40, 800))
}

// request tokens: mostly random, with the edges of the 16-bit space and byte-asymmetric values mixed in
func someToken(rng *rand.Rand) uint16 {
	if rng.Intn(4) == 0 {
		return []uint16{0x0000, 0xffff, 0x00ff, 0xff00, 0x0001, 0x0100, 0x8000, 0x0080}[rng.Intn(8)]
	}
	return uint16(rng.Intn(65536))
}
