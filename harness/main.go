// Correspondence harness: runs suites of generated cases against the real
// lospan code (built from /repo's working tree with -tags verif) and writes
// one line per case: "<suite> <id> k=v ... => <observation>".
package main

import (
	"io"
	"log"

	"bufio"
	"encoding/hex"
	"flag"
	"fmt"
	"github.com/lab5e/lospan/pkg/lg"
	"math/rand"
	"os"
	"sort"
	"strings"
)

type Writer struct {
	w      *bufio.Writer
	n      int
	prefix string
	Stats  map[string]int
}

func (w *Writer) Case(suite string, fields []string, obs string) {
	w.n++
	fmt.Fprintf(w.w, "%s %s%d %s => %s\n", suite, w.prefix, w.n, strings.Join(fields, " "), obs)
}
func (w *Writer) Count(tag string) { w.Stats[tag]++ }

// Begin journals what is about to be fed to the implementation and flushes, so that if the
// implementation kills the process the input that did it is on disk.
func (w *Writer) Begin(what string) {
	fmt.Fprintf(w.w, "#RUNNING %s\n", what)
	w.w.Flush()
}

func kv(k string, v interface{}) string {
	switch x := v.(type) {
	case []byte:
		return k + "=" + hex.EncodeToString(x)
	case bool:
		if x {
			return k + "=1"
		}
		return k + "=0"
	default:
		return fmt.Sprintf("%s=%v", k, v)
	}
}

func hx(b []byte) string { return hex.EncodeToString(b) }

type suiteFunc func(rng *rand.Rand, tier string, w *Writer)

var suites = map[string]suiteFunc{}

func randBytes(rng *rand.Rand, n int) []byte {
	b := make([]byte, n)
	rng.Read(b)
	return b
}

// structured keys: zero, ones, single bit, random
func genKey(rng *rand.Rand) []byte {
	k := make([]byte, 16)
	switch rng.Intn(6) {
	case 0:
	case 1:
		for i := range k {
			k[i] = 0xff
		}
	case 2:
		bit := rng.Intn(128)
		k[bit/8] = 1 << uint(bit%8)
	default:
		rng.Read(k)
	}
	return k
}

func main() {
	// silence the library's logging
	nolog := func(string, ...any) {}
	lg.Debug, lg.Info, lg.Warning, lg.Error = nolog, nolog, nolog, nolog
	log.SetOutput(io.Discard)
	suite := flag.String("suite", "", "suite name")
	tier := flag.String("tier", "quick", "quick|thorough")
	seed := flag.Int64("seed", 1, "PRNG seed")
	out := flag.String("out", "", "output file")
	flag.Parse()
	f, ok := suites[*suite]
	if !ok {
		var names []string
		for k := range suites {
			names = append(names, k)
		}
		sort.Strings(names)
		fmt.Fprintf(os.Stderr, "unknown suite %q; have %v\n", *suite, names)
		os.Exit(2)
	}
	fh, err := os.Create(*out)
	if err != nil {
		fmt.Fprintln(os.Stderr, err)
		os.Exit(2)
	}
	w := &Writer{w: bufio.NewWriterSize(fh, 1<<20), prefix: "c", Stats: map[string]int{}}
	rng := rand.New(rand.NewSource(*seed))
	f(rng, *tier, w)
	w.w.Flush()
	fh.Close()
	// distribution to stderr-free stats file
	sf, _ := os.Create(*out + ".stats")
	keys := make([]string, 0, len(w.Stats))
	for k := range w.Stats {
		keys = append(keys, k)
	}
	sort.Strings(keys)
	for _, k := range keys {
		fmt.Fprintf(sf, "%s %d\n", k, w.Stats[k])
	}
	sf.Close()
}
