package main

import (
	"math/rand"
)

func init() { suites["C11"] = suiteC11 }

// PHY payloads of every structure class, each with and without spare capacity; the
// gateway datagram and pipeline parts are added by c11gw.go.
func suiteC11(rng *rand.Rand, tier string, w *Writer) {
	n := 2500
	if tier == "thorough" {
		n = 40000
	}
	genPhyStream(rng, w, n)
	// the design-round witnesses
	phyCase(w, append([]byte{0x20}, make([]byte, 11)...), nil, "witness.joinaccept12")
	wit := []byte{0x40, 1, 2, 3, 4, 0, 1, 0, 0, 2, 2, 2, 2, 2, 3, 0xaa, 0xbb, 0xcc}
	phyCase(w, wit, nil, "witness.port0")
	phyCase(w, wit, []byte{0x53, 0, 0, 0}, "witness.port0.spare")
	// (type, FOptsLen, payload-structure class, length 12..40)
	for mt := 0; mt < 8; mt++ {
		for fol := 0; fol < 16; fol++ {
			for l := 12; l <= 40; l++ {
				if tier != "thorough" && rng.Intn(4) != 0 {
					continue
				}
				b := make([]byte, l)
				for i := range b {
					// MAC-command-like bytes
					b[i] = []byte{0x02, 0x03, 0x05, 0x06, 0x07, 0x10, 0x11, 0x13, 0x00, 0x80}[rng.Intn(10)]
				}
				b[0] = byte(mt) << 5
				b[5] = byte(rng.Intn(16))<<4 | byte(fol)
				if 8+fol < l && rng.Intn(2) == 0 {
					b[8+fol] = 0 // port 0
				}
				phyCase(w, b, genSpare(rng), "grid")
			}
		}
	}
	for _, f := range extraC11 {
		f(rng, tier, w)
	}
	// the pipeline behind the forwarder: one server fed well over a hundred frames, most of them malformed
	nh := 5
	if tier == "thorough" {
		nh = 60
	}
	for i := 0; i < nh; i++ {
		runHistory(rng, profiles["C11"], w, "histC11")
	}
}

var extraC11 []suiteFunc
