//go:build verif && !no_c19

package main

import (
	"fmt"
	"math/rand"
	"os"
	"runtime"
	"sort"
	"strings"
	"sync"
	"time"

	"github.com/lab5e/lospan/pkg/keys"
	"github.com/lab5e/lospan/pkg/protocol"
	"github.com/lab5e/lospan/pkg/storage"
	"github.com/lab5e/lospan/pkg/verifgate"
)

func init() { suites["C19"] = suiteC19 }

// crash control for the key-block reservation: the first goroutine that enters AllocateKeys
// for the armed identifier is the victim; "before" makes its commit never happen (the code's
// own rollback path; SQLite's atomic commit is the trusted part) and every later attempt of
// that goroutine fail at entry; "after" lets the commit happen and ends the goroutine before
// it hands anything out.
type crashCtl struct {
	mu      sync.Mutex
	armed   string // "", "before", "after"
	ident   string
	victims map[uint64]bool
	hit     chan struct{}
}

var errCrash = fmt.Errorf("crashed")

func (c *crashCtl) hook(op string, args ...any) error {
	if !strings.HasPrefix(op, "AllocateKeys:") {
		return nil
	}
	g := gid()
	c.mu.Lock()
	if c.victims[g] {
		c.mu.Unlock()
		return errCrash
	}
	if c.armed == "" || len(args) == 0 || args[0].(string) != c.ident {
		c.mu.Unlock()
		return nil
	}
	switch {
	case c.armed == "before" && op == "AllocateKeys:before-commit":
		c.victims[g] = true
		c.armed = ""
		close(c.hit)
		c.mu.Unlock()
		return errCrash
	case c.armed == "after" && op == "AllocateKeys:after-commit":
		c.victims[g] = true
		c.armed = ""
		close(c.hit)
		c.mu.Unlock()
		runtime.Goexit()
	}
	c.mu.Unlock()
	return nil
}

func keygenCase(rng *rand.Rand, w *Writer, forceEnd bool) {
	dir, err := os.MkdirTemp(scratchDir(), "verifkg")
	if err != nil {
		fmt.Fprintln(os.Stderr, "tmpdir:", err)
		os.Exit(3)
	}
	defer os.RemoveAll(dir)
	conn := "file:" + dir + "/db.sqlite?_pragma=busy_timeout(20000)&_pragma=synchronous(off)"
	open := func() *storage.Storage {
		st, err := storage.CreateStorage(conn)
		if err != nil {
			fmt.Fprintln(os.Stderr, "storage:", err)
			os.Exit(3)
		}
		return st
	}
	st := open()
	size := rng.Intn(3)
	prefix := make([]byte, 3+size)
	rng.Read(prefix)
	ma, _ := protocol.NewMA(prefix)
	guard := []uint32{0x7FFF, 0x7FF, 0x7}[size]
	var netid uint32
	switch rng.Intn(5) {
	case 0:
		netid = 0
	case 1:
		netid = guard
	case 2:
		netid = guard - 1
	case 3:
		netid = 1
	default:
		netid = uint32(rng.Intn(int(guard) + 1))
	}
	kind := []string{"dev", "app"}[rng.Intn(2)]
	interval := map[string]int{"dev": 100, "app": 10}[kind]
	ident := fmt.Sprintf("%s/%04x/%seui", ma.String(), netid, kind)
	// position of the durable counter before the first generator starts
	pos := uint64(0) // 0 = no row yet
	mode := rng.Intn(4)
	if forceEnd {
		mode = 1
	}
	wholeSpace := false
	switch mode {
	case 1: // the last blocks of the advertised key space
		if rng.Intn(2) == 0 {
			wholeSpace = true
			break
		}
		pos = (1 << 25) - uint64(rng.Intn(2*interval+3))
	case 2:
		pos = 2 + uint64(rng.Int63n(1<<25-2))
	}
	if pos > 1 {
		if _, err := st.AllocateKeys(ident, pos-1, 1); err != nil {
			fmt.Fprintln(os.Stderr, "preseed:", err)
			os.Exit(3)
		}
	}
	ctl := &crashCtl{victims: map[uint64]bool{}, ident: ident}
	verifgate.Hook = ctl.hook
	defer func() { verifgate.Hook = globalHook }()
	newGen := func() *keys.KeyGenerator {
		g, err := keys.NewEUIKeyGenerator(ma, netid, st)
		if err != nil {
			fmt.Fprintln(os.Stderr, "keygen:", err)
			os.Exit(3)
		}
		return &g
	}
	gen := newGen()
	request := func(g *keys.KeyGenerator) string {
		var e protocol.EUI
		var err error
		if kind == "dev" {
			e, err = g.NewDeviceEUI()
		} else {
			e, err = g.NewAppEUI()
		}
		x := 0
		if err != nil {
			x = 1
		}
		return fmt.Sprintf("%016x:%d", uint64(e.ToInt64()), x)
	}
	var evs, obs []string
	foreign := func(k uint64) {
		if _, err := st.AllocateKeys(ident, k, 1); err != nil {
			fmt.Fprintln(os.Stderr, "foreign:", err)
			os.Exit(3)
		}
		evs = append(evs, fmt.Sprintf("J%d", k))
		obs = append(obs, "-")
	}
	if wholeSpace {
		// the whole key space in one history: the first ids, a foreign reservation of nearly
		// everything in between, then the last block and beyond
		k := 1 + rng.Intn(5)
		for j := 0; j < k; j++ {
			evs = append(evs, "R")
			obs = append(obs, request(gen))
		}
		first := uint64(1 + interval)
		d := uint64(rng.Intn(interval + 2))
		foreign((1 << 25) - d - first)
		gen = newGen()
		evs = append(evs, "X")
		obs = append(obs, "-")
		k = int(d) + 1 + rng.Intn(8)
		for j := 0; j < k; j++ {
			evs = append(evs, "R")
			obs = append(obs, request(gen))
		}
	}
	n := 4 + rng.Intn(14)
	for i := 0; i < n; i++ {
		switch r := rng.Intn(20); {
		case r < 8:
			k := 1 + rng.Intn(4)
			if rng.Intn(4) == 0 {
				k = interval - 2 + rng.Intn(5)
			}
			for j := 0; j < k; j++ {
				evs = append(evs, "R")
				obs = append(obs, request(gen))
			}
		case r < 12: // concurrent requesters on one generator
			k := 2 + rng.Intn(interval+6)
			res := make([]string, k)
			var wg sync.WaitGroup
			for j := 0; j < k; j++ {
				wg.Add(1)
				go func(j int) { defer wg.Done(); res[j] = request(gen) }(j)
			}
			wg.Wait()
			sort.Strings(res)
			evs = append(evs, fmt.Sprintf("K%d", k))
			obs = append(obs, strings.Join(res, "+"))
		case r == 12 && rng.Intn(2) == 0:
			foreign(uint64(1 + rng.Intn(3*interval)))
		case r < 15:
			if rng.Intn(3) == 0 { // reopen the database file as well
				st.Close()
				st.VerifCloseDB()
				st = open()
			}
			gen = newGen()
			evs = append(evs, "X")
			obs = append(obs, "-")
		default: // crash inside a reservation: fresh generator, first request reserves a block
			when := []string{"before", "after"}[rng.Intn(2)]
			gen = newGen()
			ctl.mu.Lock()
			ctl.armed = when
			ctl.hit = make(chan struct{})
			hit := ctl.hit
			ctl.mu.Unlock()
			got := make(chan string, 1)
			g := gen
			go func() { got <- request(g) }()
			o := "hang"
			select {
			case <-hit:
				select {
				case v := <-got:
					o = "returned:" + v
				case <-time.After(5 * time.Millisecond):
				}
			case v := <-got:
				o = "returned:" + v
			case <-time.After(10 * time.Second):
				o = "nogate"
			}
			gen = newGen()
			evs = append(evs, map[string]string{"before": "B", "after": "A"}[when])
			obs = append(obs, o)
		}
	}
	w.Case("keygen", []string{
		fmt.Sprintf("size=%d", ma.Size), "prefix=" + hx(ma.Prefix[:]), fmt.Sprintf("netid=%d", netid),
		"kind=" + kind, fmt.Sprintf("interval=%d", interval), fmt.Sprintf("pos=%d", pos),
		"evs=" + strings.Join(evs, ","),
	}, strings.Join(obs, ","))
	w.Count("keygen." + kind)
	w.Count(fmt.Sprintf("keygen.ma%d", ma.Size))
	w.Count(fmt.Sprintf("keygen.pos%d", mode))
}

func suiteC19(rng *rand.Rand, tier string, w *Writer) {
	n := 160
	if tier == "thorough" {
		n = 2500
	}
	for i := 0; i < n; i++ {
		keygenCase(rng, w, i%3 == 0)
	}
}
