package main

import (
	"fmt"
	"math/rand"
	"strings"

	"github.com/lab5e/lospan/pkg/protocol"
)

// canonical rendering of a decoded PHYPayload (the observables of the codec)
func cmdsStr(set *protocol.MACCommandSet) string {
	var out []string
	for _, c := range set.List() {
		u := 0
		if c.Uplink() {
			u = 1
		}
		vals := macGetFields(c)
		vs := make([]string, len(vals))
		for i, x := range vals {
			vs[i] = fmt.Sprint(x)
		}
		out = append(out, fmt.Sprintf("%d:%d:%s", u, c.ID(), strings.Join(vs, "/")))
	}
	return "[" + strings.Join(out, ";") + "]"
}
func b01(b bool) int {
	if b {
		return 1
	}
	return 0
}
func euiHex(e protocol.EUI) string { return hx(e.Octets[:]) }

func phyStr(p *protocol.PHYPayload) string {
	m := &p.MACPayload
	return fmt.Sprintf("mt=%d mj=%d addr=%d/%d fc=%d%d%d%d%d/%d fcnt=%d fopts=%s port=%d frm=%s cmds=%s mic=%08x jr=%s/%s/%d ja=%s/%d/%d/%d/%d/%d/%d",
		p.MHDR.MType, p.MHDR.MajorVersion, m.FHDR.DevAddr.NwkID, m.FHDR.DevAddr.NwkAddr,
		b01(m.FHDR.FCtrl.ADR), b01(m.FHDR.FCtrl.ADRACKReq), b01(m.FHDR.FCtrl.ACK), b01(m.FHDR.FCtrl.FPending), b01(m.FHDR.FCtrl.ClassB), m.FHDR.FCtrl.FOptsLen,
		m.FHDR.FCnt, cmdsStr(&m.FHDR.FOpts), m.FPort, hx(m.FRMPayload), cmdsStr(&m.MACCommands), p.MIC,
		euiHex(p.JoinRequestPayload.AppEUI), euiHex(p.JoinRequestPayload.DevEUI), p.JoinRequestPayload.DevNonce,
		hx(p.JoinAcceptPayload.AppNonce[:]), p.JoinAcceptPayload.NetID, p.JoinAcceptPayload.DevAddr.NwkID, p.JoinAcceptPayload.DevAddr.NwkAddr,
		p.JoinAcceptPayload.DLSettings.RX1DRoffset, p.JoinAcceptPayload.DLSettings.RX2DataRate, p.JoinAcceptPayload.RxDelay)
}

// decode data presented as a sub-slice with the given bytes behind len
func phyDecodeObs(data, spare []byte) string {
	arr := append(append([]byte{}, data...), spare...)
	view := arr[0:len(data):len(arr)]
	obs := ""
	func() {
		defer func() {
			if r := recover(); r != nil {
				obs = "PANIC"
			}
		}()
		p := protocol.NewPHYPayload(protocol.Proprietary)
		if err := p.UnmarshalBinary(view); err != nil {
			obs = fmt.Sprintf("err%d", errCode(err))
			return
		}
		obs = "ok " + phyStr(&p)
	}()
	return obs
}

func phyCase(w *Writer, data, spare []byte, tag string) {
	w.Case("phy", []string{kv("data", data), kv("spare", spare)}, phyDecodeObs(data, spare))
	w.Count("phy." + tag)
}

// one encoded known MAC command of the direction with random fields
func randKnownCmd(rng *rand.Rand, up bool) []byte {
	cid := macCIDs[rng.Intn(len(macCIDs))]
	c := newMAC(up, cid)
	kinds := macFieldKinds(c)
	vals := make([]uint64, len(kinds))
	for i, k := range kinds {
		vals[i] = genFieldVal(rng, k)
	}
	macSetFields(c, vals)
	buf := make([]byte, 16)
	pos := 0
	protocol.VerifEncodeMAC(c, buf, &pos)
	return buf[:pos]
}

// option / port-0 payload bytes of exactly n bytes: known commands, unknown CIDs, repeats, truncated tails
func genOptBytes(rng *rand.Rand, up bool, n int) []byte {
	var out []byte
	mode := rng.Intn(5)
	var last []byte
	for len(out) < n {
		var c []byte
		switch {
		case mode == 1 && last != nil && rng.Intn(2) == 0:
			c = last // repeated command
		case mode == 2 && rng.Intn(3) == 0:
			c = []byte{byte(0x20 + rng.Intn(200))} // unknown CID
		case mode == 3 && rng.Intn(4) == 0:
			c = randBytes(rng, 1+rng.Intn(3))
		default:
			c = randKnownCmd(rng, up)
		}
		last = c
		out = append(out, c...)
	}
	return out[:n] // possibly truncating the last command
}

func genDataFrame(rng *rand.Rand) ([]byte, string) {
	mts := []byte{2, 3, 4, 5}
	mt := mts[rng.Intn(4)]
	up := mt == 2 || mt == 4
	major := byte(0)
	if rng.Intn(12) == 0 {
		major = byte(1 + rng.Intn(3))
	}
	rfu := byte(0)
	if rng.Intn(6) == 0 {
		rfu = byte(rng.Intn(8)) << 2
	}
	f := []byte{mt<<5 | rfu | major}
	addr := rng.Uint32()
	if rng.Intn(4) == 0 {
		addr |= 0x80000000
	}
	f = append(f, byte(addr), byte(addr>>8), byte(addr>>16), byte(addr>>24))
	foptslen := 0
	if rng.Intn(2) == 0 {
		foptslen = rng.Intn(16)
	}
	fctrl := byte(rng.Intn(16))<<4 | byte(foptslen)
	f = append(f, fctrl)
	fcnt := []int{0, 1, 255, 256, 65534, 65535, rng.Intn(65536)}[rng.Intn(7)]
	f = append(f, byte(fcnt), byte(fcnt>>8))
	f = append(f, genOptBytes(rng, up, foptslen)...)
	tag := "data"
	switch rng.Intn(6) {
	case 0: // no port, no payload
		tag = "data.noport"
	case 1: // port 0 with MAC-command-like payload
		f = append(f, 0)
		f = append(f, genOptBytes(rng, up, rng.Intn(20))...)
		tag = "data.port0"
	case 2: // port only
		f = append(f, byte(1+rng.Intn(223)))
		tag = "data.portonly"
	default:
		f = append(f, byte(1+rng.Intn(255)))
		n := rng.Intn(60)
		if rng.Intn(8) == 0 {
			n = 200 + rng.Intn(43)
		}
		f = append(f, randBytes(rng, n)...)
	}
	f = append(f, randBytes(rng, 4)...)
	return f, tag
}

func genSpare(rng *rand.Rand) []byte {
	if rng.Intn(2) == 0 {
		return nil
	}
	n := 1 + rng.Intn(16)
	sp := make([]byte, n)
	for i := range sp {
		// spare bytes that look like MAC commands or like more payload
		sp[i] = []byte{0x02, 0x03, 0x06, 0x10, 0xEE, 0x00}[rng.Intn(6)]
	}
	return sp
}

func genPhyStream(rng *rand.Rand, w *Writer, n int) {
	for i := 0; i < n; i++ {
		switch rng.Intn(10) {
		case 0: // random bytes of any length
			l := rng.Intn(41)
			if rng.Intn(10) == 0 {
				l = 250 + rng.Intn(51)
			}
			phyCase(w, randBytes(rng, l), genSpare(rng), "random")
		case 1: // join request / join accept / RFU / proprietary with lengths around the minimum
			mt := []byte{0, 1, 6, 7}[rng.Intn(4)]
			l := 10 + rng.Intn(24)
			b := randBytes(rng, l)
			if l > 0 {
				b[0] = mt<<5 | byte(rng.Intn(4)&rng.Intn(4))
			}
			phyCase(w, b, genSpare(rng), fmt.Sprintf("mtype%d", mt))
		case 2: // truncated valid frame
			f, _ := genDataFrame(rng)
			cut := rng.Intn(len(f) + 1)
			phyCase(w, f[:cut], genSpare(rng), "truncated")
		case 3: // extended valid frame
			f, _ := genDataFrame(rng)
			f = append(f, randBytes(rng, 1+rng.Intn(16))...)
			phyCase(w, f, genSpare(rng), "extended")
		default:
			f, tag := genDataFrame(rng)
			phyCase(w, f, genSpare(rng), tag)
		}
	}
}
