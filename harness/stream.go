//go:build verif

package main

import (
	"bytes"
	"context"
	"fmt"
	"io"
	"math/rand"
	"sync"
	"time"

	"github.com/lab5e/lospan/pkg/apiserver"
	"github.com/lab5e/lospan/pkg/model"
	"github.com/lab5e/lospan/pkg/pb/lospan"
	"github.com/lab5e/lospan/pkg/protocol"
	"github.com/lab5e/lospan/pkg/server"
	"google.golang.org/grpc"
	"google.golang.org/grpc/codes"
	"google.golang.org/grpc/status"
)

// The last step of an uplink's way to its application: the service's StreamMessages subscribes to the application's events on
// the router and copies each published event into the message it sends on the stream. Run here with a stream object of the
// harness (no transport): every event published for the application arrives once, in order, with the payload, device, gateway,
// signal and address of the event; events of other applications do not; when the stream ends the subscription is given up.
type fakeStream struct {
	grpc.ServerStream
	mu    sync.Mutex
	got   []*lospan.UpstreamMessage
	limit int
}

func (f *fakeStream) Send(m *lospan.UpstreamMessage) error {
	f.mu.Lock()
	defer f.mu.Unlock()
	if f.limit >= 0 && len(f.got) >= f.limit {
		return io.EOF
	}
	f.got = append(f.got, m)
	return nil
}
func (f *fakeStream) Context() context.Context { return context.Background() }
func (f *fakeStream) count() int {
	f.mu.Lock()
	defer f.mu.Unlock()
	return len(f.got)
}

func streamCase(rng *rand.Rand, w *Writer) {
	router := server.NewEventRouter[protocol.EUI, *server.PayloadMessage](4)
	api, err := apiserver.New(nil, nil, &router)
	obs := "ok"
	fail := func(f string, a ...any) {
		if obs == "ok" {
			obs = fmt.Sprintf(f, a...)
		}
	}
	if err != nil {
		w.Case("stream", []string{"k=stream"}, "no-service")
		return
	}
	app, other := eui64(genEUI(rng)), eui64(genEUI(rng))
	if app == other {
		other = eui64(genEUI(rng) ^ 1)
	}
	if e := api.StreamMessages(&lospan.StreamMessagesRequest{Eui: "not-an-eui"}, &fakeStream{limit: -1}); status.Code(e) != codes.InvalidArgument {
		fail("malformed-application-EUI-answered-%v", status.Code(e))
	}
	fs := &fakeStream{limit: -1}
	done := make(chan error, 1)
	go func() { done <- api.StreamMessages(&lospan.StreamMessagesRequest{Eui: app.String()}, fs) }()
	mk := func(payload []byte) *server.PayloadMessage {
		m := &server.PayloadMessage{Payload: payload}
		m.Device = model.Device{DeviceEUI: eui64(genEUI(rng)), DevAddr: protocol.DevAddrFromUint32(rng.Uint32())}
		m.FrameContext.GatewayContext.Gateway.GatewayEUI = eui64(genEUI(rng))
		m.FrameContext.GatewayContext.Radio = server.RadioContext{RSSI: int32(rng.Intn(300) - 200), SNR: float32(rng.Intn(281)-160) / 8,
			Frequency: []float32{868.1, 868.3, 867.5, 0}[rng.Intn(4)], DataRate: datrs[rng.Intn(len(datrs))]}
		return m
	}
	// the subscription exists once a probe comes through
	deadline := time.Now().Add(5 * time.Second)
	for fs.count() == 0 && time.Now().Before(deadline) {
		router.Publish(app, mk([]byte("probe")))
		time.Sleep(2 * time.Millisecond)
	}
	if fs.count() == 0 {
		w.Case("stream", []string{"k=stream"}, "stream-never-subscribed")
		return
	}
	var sent []*server.PayloadMessage
	n := 3 + rng.Intn(12)
	for i := 0; i < n; i++ {
		if rng.Intn(3) == 0 {
			router.Publish(other, mk([]byte("not-for-this-application")))
		}
		m := mk(append([]byte{byte(i)}, randBytes(rng, rng.Intn(30))...))
		sent = append(sent, m)
		router.Publish(app, m)
	}
	var real []*lospan.UpstreamMessage
	deadline = time.Now().Add(5 * time.Second)
	for time.Now().Before(deadline) {
		real = real[:0]
		fs.mu.Lock()
		for _, m := range fs.got {
			if !bytes.Equal(m.Payload, []byte("probe")) {
				real = append(real, m)
			}
		}
		fs.mu.Unlock()
		if len(real) >= n {
			break
		}
		time.Sleep(2 * time.Millisecond)
	}
	if len(real) != n {
		fail("application-got-%d-of-%d-events", len(real), n)
	}
	for i := 0; i < len(real) && i < n; i++ {
		g, s := real[i], sent[i]
		r := s.FrameContext.GatewayContext.Radio
		if !bytes.Equal(g.Payload, s.Payload) {
			fail("event-%d-payload-%x-published-%x", i, g.Payload, s.Payload)
		} else if g.Eui != s.Device.DeviceEUI.String() || g.DevAddr != s.Device.DevAddr.ToUint32() {
			fail("event-%d-device-%s/%08x-published-%s/%08x", i, g.Eui, g.DevAddr, s.Device.DeviceEUI, s.Device.DevAddr.ToUint32())
		} else if g.GatewayEui != s.FrameContext.GatewayContext.Gateway.GatewayEUI.String() {
			fail("event-%d-gateway-%s-published-%s", i, g.GatewayEui, s.FrameContext.GatewayContext.Gateway.GatewayEUI)
		} else if g.Rssi != r.RSSI || g.Snr != r.SNR || g.Frequency != r.Frequency || g.DataRate != r.DataRate {
			fail("event-%d-reception-%d/%v/%v/%s-published-%d/%v/%v/%s", i, g.Rssi, g.Snr, g.Frequency, g.DataRate, r.RSSI, r.SNR, r.Frequency, r.DataRate)
		}
	}
	// the stream ends (the next Send fails): the call returns and the subscription is given up
	fs.mu.Lock()
	fs.limit = len(fs.got)
	fs.mu.Unlock()
	router.Publish(app, mk([]byte("after-the-end")))
	select {
	case <-done:
	case <-time.After(5 * time.Second):
		fail("stream-call-did-not-return-after-its-stream-ended")
	}
	before := fs.count()
	router.Publish(app, mk([]byte("nobody-listens")))
	if fs.count() != before {
		fail("event-delivered-after-the-stream-ended")
	}
	w.Case("stream", []string{"k=stream", fmt.Sprintf("n=%d", n)}, obs)
	w.Count("stream.application-stream")
}
