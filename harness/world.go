package main

import (
	"bytes"
	"crypto/aes"
	"encoding/binary"
	"fmt"
	"math"
	"os"
	"runtime"
	"sort"
	"strconv"
	"strings"
	"sync"
	"time"

	"github.com/lab5e/lospan/pkg/apiserver"
	"github.com/lab5e/lospan/pkg/band"
	"github.com/lab5e/lospan/pkg/events/gwevents"
	"github.com/lab5e/lospan/pkg/keys"
	"github.com/lab5e/lospan/pkg/model"
	"github.com/lab5e/lospan/pkg/pb/lospan"
	"github.com/lab5e/lospan/pkg/processor"
	"github.com/lab5e/lospan/pkg/protocol"
	"github.com/lab5e/lospan/pkg/server"
	"github.com/lab5e/lospan/pkg/storage"
	"github.com/lab5e/lospan/pkg/verifgate"
)

// fakeForwarder stands in for the UDP forwarder: the harness feeds uplinks and collects downlinks.
type fakeForwarder struct {
	in  chan server.GatewayPacket // pipeline -> gateway (downlinks)
	out chan server.GatewayPacket // gateway -> pipeline (uplinks)
}

func (f *fakeForwarder) Start()                              {}
func (f *fakeForwarder) Stop()                               {}
func (f *fakeForwarder) Input() chan<- server.GatewayPacket  { return f.in }
func (f *fakeForwarder) Output() <-chan server.GatewayPacket { return f.out }

// World is one server instance (context, storage, pipeline) under gate control.
type World struct {
	ctx      *server.Context
	store    *storage.Storage
	fob      *server.FrameOutputBuffer
	fwd      *fakeForwarder
	pipe     *processor.Pipeline
	dbfile   string
	rxDelay  time.Duration
	tmpdir   string
	cfg      server.Parameters
	mu       sync.Mutex
	cond     *sync.Cond
	active   int
	inflight int
	trace    []string
	downs    []server.GatewayPacket
	pubs     []*server.PayloadMessage
	pubch    map[protocol.EUI]<-chan *server.PayloadMessage
	// stepped mode
	stepped   bool
	parked    map[uint64]*parkedG
	order     []uint64 // thread numbering by first appearance
	failNext  map[uint64]error
	dead      map[uint64]bool
	threadOf  map[uint64]int // which injected frame a goroutine works for (stepped runs with two frames)
	curThread int
	epoch     int
	myEpoch   int
	api       lospan.LospanServer // the service object on this world's storage (operator requests), made on first use
	apiEpoch  int
}

// the service object an operator talks to, on the storage this server uses
func (w *World) service() lospan.LospanServer {
	if w.api == nil || w.apiEpoch != w.epoch {
		ma, _ := protocol.NewMA([]byte{0xA5, 0x5A, 0x3C})
		kg, err := keys.NewEUIKeyGenerator(ma, 0x1234, w.store)
		if err != nil {
			fmt.Fprintln(os.Stderr, "keygen:", err)
			os.Exit(3)
		}
		router := server.NewEventRouter[protocol.EUI, *server.PayloadMessage](2)
		api, err := apiserver.New(w.store, &kg, &router)
		if err != nil {
			fmt.Fprintln(os.Stderr, "apiserver:", err)
			os.Exit(3)
		}
		w.api, w.apiEpoch = api, w.epoch
	}
	return w.api
}

type parkedG struct {
	gid    uint64
	epoch  int
	op     string
	resume chan error // nil = proceed, errAbandon = Goexit, other = fail the op
}

var errAbandon = fmt.Errorf("abandon")
var errInjected = fmt.Errorf("injected storage failure")

var currentWorld *World
var worldMu sync.Mutex

func gid() uint64 {
	var buf [64]byte
	n := runtime.Stack(buf[:], false)
	f := strings.Fields(string(buf[:n]))
	id, _ := strconv.ParseUint(f[1], 10, 64)
	return id
}

func globalHook(op string, args ...any) error {
	worldMu.Lock()
	w := currentWorld
	worldMu.Unlock()
	if w == nil {
		return nil
	}
	return w.hook(op, args...)
}

func init() { verifgate.Hook = globalHook }

// accounting of goroutines and messages in flight, so that quiescence is a fact, not a sleep
func (w *World) account(op string) {
	switch {
	case op == "enter:decoder", op == "enter:handler", op == "enter:join", op == "enter:mac", op == "enter:sendAt", op == "enter:encoder":
		w.inflight--
		w.active++
	case strings.HasPrefix(op, "exit:"):
		w.active--
	case op == "handoff:decoded", op == "spawn:join", op == "handoff:macOutput", op == "handoff:notify",
		op == "handoff:schedOutput", op == "handoff:done", op == "handoff:encOutput":
		w.inflight++
	case op == "sched:duplicate", op == "sched:completed":
		w.inflight--
	}
}

func isStorageOp(op string) bool {
	return !strings.Contains(op, ":") && op != "publish"
}

func (w *World) hook(op string, args ...any) error {
	g := gid()
	w.mu.Lock()
	if w.dead[g] {
		w.mu.Unlock()
		return nil
	}
	if w.threadOf != nil {
		if _, ok := w.threadOf[g]; !ok {
			w.threadOf[g] = w.curThread
		}
	}
	w.account(op)
	w.trace = append(w.trace, op)
	w.cond.Broadcast()
	if !w.stepped || !w.parkable(op) {
		w.mu.Unlock()
		return nil
	}
	// stepped mode: park until the controller decides
	if _, seen := w.threadIndex(g); !seen {
		w.order = append(w.order, g)
	}
	p := &parkedG{gid: g, epoch: w.epoch, op: op, resume: make(chan error, 1)}
	w.parked[g] = p
	w.cond.Broadcast()
	w.mu.Unlock()
	err := <-p.resume
	if err == errAbandon {
		w.mu.Lock()
		w.dead[g] = true
		// an abandoned goroutine no longer counts
		if p.epoch == w.epoch {
			w.active--
		}
		w.cond.Broadcast()
		w.mu.Unlock()
		runtime.Goexit()
	}
	return err
}

// in stepped mode goroutines park at storage / frame-buffer operations and at the emit hand-off
func (w *World) parkable(op string) bool {
	return isStorageOp(op) || op == "handoff:encOutput"
}

func (w *World) threadIndex(g uint64) (int, bool) {
	for i, x := range w.order {
		if x == g {
			return i, true
		}
	}
	return -1, false
}

type worldOpts struct {
	netID             uint
	rxDelay           time.Duration // receive-window delay of the scheduler (0: answer at once)
	disableNonceCheck bool
	dbfile            string // "" = memory
}

func newWorld(o worldOpts) *World {
	w := &World{rxDelay: o.rxDelay, dbfile: o.dbfile, parked: map[uint64]*parkedG{}, failNext: map[uint64]error{}, dead: map[uint64]bool{}}
	w.cond = sync.NewCond(&w.mu)
	w.cfg = server.Parameters{NetworkID: o.netID, DisableNonceCheck: o.disableNonceCheck, MA: "00-00-00", ConnectionString: ":memory:"}
	w.open()
	return w
}

func (w *World) open() {
	// A file database: with ":memory:" every additional pooled connection is a separate,
	// empty database, so any two concurrent statements break the store.
	if w.dbfile == "" {
		dir, err := os.MkdirTemp(scratchDir(), "verifdb")
		if err != nil {
			fmt.Fprintln(os.Stderr, "tmpdir:", err)
			os.Exit(3)
		}
		w.tmpdir = dir
		w.dbfile = dir + "/db.sqlite"
	}
	conn := "file:" + w.dbfile + "?_pragma=busy_timeout(20000)&_pragma=synchronous(off)"
	st, err := storage.CreateStorage(conn)
	if err != nil {
		fmt.Fprintln(os.Stderr, "storage:", err)
		os.Exit(3)
	}
	w.store = st
	fob := server.NewFrameOutputBuffer()
	w.fob = &fob
	appRouter := server.NewEventRouter[protocol.EUI, *server.PayloadMessage](4096)
	gwRouter := server.NewEventRouter[protocol.EUI, gwevents.GwEvent](4096)
	cfg := w.cfg
	w.ctx = &server.Context{Storage: st, FrameOutput: w.fob, Config: &cfg, AppRouter: &appRouter, GwEventRouter: &gwRouter, Terminator: make(chan bool)}
	w.fwd = &fakeForwarder{in: make(chan server.GatewayPacket), out: make(chan server.GatewayPacket)}
	w.pipe = processor.NewPipeline(w.ctx, w.fwd)
	w.pipe.Scheduler.SetRXDelay(w.rxDelay)
	w.pubch = map[protocol.EUI]<-chan *server.PayloadMessage{}
	worldMu.Lock()
	currentWorld = w
	worldMu.Unlock()
	w.pipe.Start()
	fin := w.fwd.in
	go func() {
		for p := range fin {
			w.mu.Lock()
			w.inflight--
			w.downs = append(w.downs, p)
			w.cond.Broadcast()
			w.mu.Unlock()
		}
	}()
}

// subscribe to an application's published payloads
func (w *World) watchApp(app protocol.EUI) {
	if _, ok := w.pubch[app]; ok {
		return
	}
	ch := w.ctx.AppRouter.Subscribe(app)
	w.pubch[app] = ch
	go func() {
		for m := range ch {
			w.mu.Lock()
			w.pubs = append(w.pubs, m)
			w.cond.Broadcast()
			w.mu.Unlock()
		}
	}()
}

// inject one packet as the forwarder would hand it to the pipeline
func (w *World) inject(p server.GatewayPacket) bool {
	w.mu.Lock()
	w.inflight++
	w.mu.Unlock()
	select {
	case w.fwd.out <- p:
		return true
	case <-time.After(10 * time.Second):
		// the pipeline no longer takes input from the forwarder
		w.mu.Lock()
		w.inflight--
		w.mu.Unlock()
		return false
	}
}

// wait until no goroutine of the pipeline is running and no message is in flight
func (w *World) quiesce() bool {
	deadline := time.Now().Add(20 * time.Second)
	w.mu.Lock()
	defer w.mu.Unlock()
	for w.active != 0 || w.inflight != 0 {
		if time.Now().After(deadline) {
			return false
		}
		waitCond(w.cond, 50*time.Millisecond)
	}
	return true
}

func waitCond(c *sync.Cond, d time.Duration) {
	t := time.AfterFunc(d, func() { c.Broadcast() })
	c.Wait()
	t.Stop()
}

// drains what the last event produced (publishes arrive through a buffered channel)
func (w *World) collect() ([]server.GatewayPacket, []*server.PayloadMessage, []string) {
	// publishes are asynchronous to the subscriber goroutine: give them a moment to land
	want := 0
	w.mu.Lock()
	for _, op := range w.trace {
		if op == "publish" {
			want++
		}
	}
	deadline := time.Now().Add(5 * time.Second)
	for len(w.pubs) < want && time.Now().Before(deadline) {
		waitCond(w.cond, 20*time.Millisecond)
	}
	d, p, t := w.downs, w.pubs, w.trace
	w.downs, w.pubs, w.trace = nil, nil, nil
	w.mu.Unlock()
	return d, p, t
}

func (w *World) close() {
	worldMu.Lock()
	if currentWorld == w {
		currentWorld = nil
	}
	worldMu.Unlock()
	close(w.fwd.out)
	w.store.VerifCloseDB()
	if w.tmpdir != "" {
		os.RemoveAll(w.tmpdir)
	}
}

func scratchDir() string {
	if fi, err := os.Stat("/dev/shm"); err == nil && fi.IsDir() {
		return "/dev/shm"
	}
	return ""
}

// ---------- canonical dumps ----------
func keyHex(k protocol.AESKey) string { return hx(k.Key[:]) }

func euiN(e protocol.EUI) string { return fmt.Sprintf("%x", uint64(e.ToInt64())) }

func (w *World) dumpDevice(eui protocol.EUI) string {
	d, err := w.store.GetDeviceByEUI(eui)
	if err != nil {
		return fmt.Sprintf("dev %s ERR", euiN(eui))
	}
	non := make([]int, len(d.DevNonceHistory))
	for i, n := range d.DevNonceHistory {
		non[i] = int(n)
	}
	sort.Ints(non)
	ns := make([]string, len(non))
	for i, n := range non {
		ns[i] = fmt.Sprint(n)
	}
	return fmt.Sprintf("dev %s addr=%x nwk=%s app=%s fup=%d fdn=%d kw=%d nonces=[%s]", euiN(eui), d.DevAddr.ToUint32(), keyHex(d.NwkSKey), keyHex(d.AppSKey),
		d.FCntUp, d.FCntDn, b01(d.KeyWarning), strings.Join(ns, ","))
}

func (w *World) dumpOutbox(eui protocol.EUI) string {
	l, err := w.store.ListDownstreamMessages(eui)
	if err != nil {
		return "outbox ERR"
	}
	var s []string
	for _, m := range l {
		s = append(s, fmt.Sprintf("%d:%d:%d:%d", m.CreatedTime, b01(m.SentTime != 0), b01(m.AckTime != 0), m.FCntUp))
	}
	return "outbox " + euiN(eui) + " [" + strings.Join(s, ",") + "]"
}

func (w *World) dumpInbox(eui protocol.EUI) string {
	l, err := w.store.ListUpstreamMessages(eui, 100000)
	if err != nil {
		return "inbox ERR"
	}
	var s []string
	for i := len(l) - 1; i >= 0; i-- { // oldest first
		s = append(s, fmt.Sprintf("#%s@%x:%d:%d:%.3f:%s:%x", hx(l[i].Data), uint64(l[i].GatewayEUI.ToInt64()), l[i].RSSI,
			int64(math.Round(float64(l[i].SNR)*8000)), l[i].Frequency, l[i].DataRate, l[i].DevAddr.ToUint32()))
	}
	return "inbox " + euiN(eui) + " [" + strings.Join(s, ",") + "]"
}

var eu868, _ = band.NewBand(band.EU868Band)

// ---------- reference device helpers (harness side, written from the specification) ----------
func aesEnc(key, blk []byte) []byte {
	c, _ := aes.NewCipher(key)
	out := make([]byte, 16)
	c.Encrypt(out, blk)
	return out
}

func refCMAC(key, msg []byte) []byte {
	// RFC 4493
	l := aesEnc(key, make([]byte, 16))
	dbl := func(b []byte) []byte {
		out := make([]byte, 16)
		carry := byte(0)
		for i := 15; i >= 0; i-- {
			out[i] = b[i]<<1 | carry
			carry = b[i] >> 7
		}
		if carry == 1 {
			out[15] ^= 0x87
		}
		return out
	}
	k1 := dbl(l)
	k2 := dbl(k1)
	n := (len(msg) + 15) / 16
	complete := n > 0 && len(msg)%16 == 0
	if n == 0 {
		n = 1
	}
	last := make([]byte, 16)
	copy(last, msg[(n-1)*16:])
	if complete {
		for i := range last {
			last[i] ^= k1[i]
		}
	} else {
		last[len(msg)-(n-1)*16] = 0x80
		for i := range last {
			last[i] ^= k2[i]
		}
	}
	x := make([]byte, 16)
	for i := 0; i < n-1; i++ {
		for j := 0; j < 16; j++ {
			x[j] ^= msg[i*16+j]
		}
		x = aesEnc(key, x)
	}
	for j := 0; j < 16; j++ {
		x[j] ^= last[j]
	}
	return aesEnc(key, x)
}

func refCrypt(key []byte, dir byte, addr uint32, fcnt uint32, p []byte) []byte {
	out := make([]byte, len(p))
	for i := 0; i*16 < len(p); i++ {
		a := make([]byte, 16)
		a[0] = 1
		a[5] = dir
		binary.LittleEndian.PutUint32(a[6:], addr)
		binary.LittleEndian.PutUint32(a[10:], fcnt)
		a[15] = byte(i + 1)
		s := aesEnc(key, a)
		for j := 0; j < 16 && i*16+j < len(p); j++ {
			out[i*16+j] = p[i*16+j] ^ s[j]
		}
	}
	return out
}

func refMIC(nwk []byte, dir byte, addr uint32, fcnt uint32, msg []byte) []byte {
	b0 := make([]byte, 16)
	b0[0] = 0x49
	b0[5] = dir
	binary.LittleEndian.PutUint32(b0[6:], addr)
	binary.LittleEndian.PutUint32(b0[10:], fcnt)
	b0[15] = byte(len(msg))
	return refCMAC(nwk, append(b0, msg...))[:4]
}

// a conformant uplink data frame
func refUplink(nwk, app []byte, mtype byte, addr uint32, fcnt uint16, fctrlHi byte, fopts []byte, port int, payload []byte) []byte {
	f := []byte{mtype << 5}
	f = binary.LittleEndian.AppendUint32(f, addr)
	f = append(f, fctrlHi<<4|byte(len(fopts)))
	f = binary.LittleEndian.AppendUint16(f, fcnt)
	f = append(f, fopts...)
	if port >= 0 {
		key := app
		if port == 0 {
			key = nwk
		}
		f = append(f, byte(port))
		f = append(f, refCrypt(key, 0, addr, uint32(fcnt), payload)...)
	}
	return append(f, refMIC(nwk, 0, addr, uint32(fcnt), f)...)
}

func refJoinRequest(appkey []byte, appeui, deveui protocol.EUI, nonce uint16) []byte {
	f := []byte{0}
	for i := 7; i >= 0; i-- {
		f = append(f, appeui.Octets[i])
	}
	for i := 7; i >= 0; i-- {
		f = append(f, deveui.Octets[i])
	}
	f = append(f, byte(nonce>>8), byte(nonce)) // DevNonce octets as sent
	return append(f, refCMAC(appkey, f)[:4]...)
}

// what a device gets out of a join-accept: ok, devaddr, appnonce(3), netid(3), nwkskey, appskey
func refOnJoinAccept(appkey []byte, nonce uint16, ja []byte) (bool, uint32, []byte, []byte, []byte, []byte) {
	if len(ja) != 17 || ja[0]>>5 != 1 {
		return false, 0, nil, nil, nil, nil
	}
	dec := aesEnc(appkey, ja[1:])
	mic := refCMAC(appkey, append([]byte{ja[0]}, dec[:12]...))[:4]
	if !bytes.Equal(mic, dec[12:16]) {
		return false, 0, nil, nil, nil, nil
	}
	derive := func(prefix byte) []byte {
		b := make([]byte, 16)
		b[0] = prefix
		copy(b[1:], dec[0:3])
		copy(b[4:], dec[3:6])
		b[7] = byte(nonce >> 8)
		b[8] = byte(nonce)
		return aesEnc(appkey, b)
	}
	return true, binary.LittleEndian.Uint32(dec[6:10]), dec[0:3], dec[3:6], derive(1), derive(2)
}

func mkDevice(eui, appeui protocol.EUI, addr uint32, appkey, nwk, app []byte, fup, fdn uint16, relaxed bool, state model.DeviceState) model.Device {
	d := model.Device{DeviceEUI: eui, AppEUI: appeui, DevAddr: protocol.DevAddrFromUint32(addr), FCntUp: fup, FCntDn: fdn, RelaxedCounter: relaxed, State: state}
	copy(d.AppKey.Key[:], appkey)
	copy(d.NwkSKey.Key[:], nwk)
	copy(d.AppSKey.Key[:], app)
	return d
}

// ---------- stepped execution: one frame, operation by operation ----------

func gateName(op string) string {
	if op == "GetDeviceByDevAddr" || op == "GetDeviceByEUI" {
		return "GetDevice"
	}
	return op
}

// settled: every live pipeline goroutine is parked at a gate (or none is running) and nothing is in a channel
func (w *World) settledLocked() bool {
	atHandoff := 0
	for _, p := range w.parked {
		if p.op == "handoff:encOutput" {
			atHandoff++
		}
	}
	return w.active == len(w.parked) && w.inflight == atHandoff
}

// runStepped feeds one packet and lets the handlers run one storage / buffer operation at a
// time. The operation with index crashAt (0-based) is not executed: its goroutine is abandoned
// there (crashAt < 0: run to completion). Operations whose index is in fails return an injected
// error instead of running. Returns the names of the operations that were let through.
func (w *World) runStepped(p server.GatewayPacket, crashAt int, fails map[int]bool) ([]string, string) {
	w.mu.Lock()
	w.stepped = true
	w.parked = map[uint64]*parkedG{}
	w.mu.Unlock()
	w.inject(p)
	var trace []string
	idx := 0
	status := "done"
	deadline := time.Now().Add(20 * time.Second)
	for {
		w.mu.Lock()
		for !w.settledLocked() {
			if time.Now().After(deadline) {
				w.mu.Unlock()
				return trace, "HUNG"
			}
			waitCond(w.cond, 20*time.Millisecond)
		}
		if len(w.parked) == 0 {
			w.mu.Unlock()
			break
		}
		var pg *parkedG
		for _, x := range w.parked {
			if pg == nil || x.gid < pg.gid {
				pg = x
			}
		}
		delete(w.parked, pg.gid)
		if idx == crashAt {
			w.mu.Unlock()
			pg.resume <- errAbandon
			status = "crashed"
			break
		}
		w.mu.Unlock()
		trace = append(trace, gateName(pg.op))
		if fails[idx] {
			pg.resume <- errInjected
		} else {
			pg.resume <- nil
		}
		idx++
	}
	w.mu.Lock()
	w.stepped = false
	w.mu.Unlock()
	return trace, status
}

// restart: the process is gone (whatever was parked dies, the buffer and the routers with it);
// a fresh server opens the same database file
func (w *World) restart() {
	w.mu.Lock()
	for g, p := range w.parked {
		delete(w.parked, g)
		p.resume <- errAbandon
	}
	w.stepped = false
	w.mu.Unlock()
	time.Sleep(2 * time.Millisecond)
	w.store.VerifCloseDB()
	w.mu.Lock()
	w.epoch++
	w.active, w.inflight = 0, 0
	w.trace, w.downs, w.pubs = nil, nil, nil
	w.mu.Unlock()
	w.open()
}

// runSched feeds two packets and interleaves their handlers operation by operation: sched[i]
// says which frame's handler performs the i-th operation when both have one pending (false = the
// first frame). Returns the operations in the order performed, tagged with the frame number.
func (w *World) runSched(p1, p2 server.GatewayPacket, sched []bool) ([]string, string) {
	is := make([]int, len(sched))
	for i, b := range sched {
		if b {
			is[i] = 1
		}
	}
	return w.runSchedN([]server.GatewayPacket{p1, p2}, is)
}

// runSchedN feeds the frames one after the other (each handler parks at its first gate), then lets the handler
// named by the schedule perform its next operation; when that handler has nothing parked, the first one that
// has (Model/Steps.v interleaveN / choose).
func (w *World) runSchedN(pkts []server.GatewayPacket, sched []int) ([]string, string) {
	w.mu.Lock()
	w.stepped = true
	w.parked = map[uint64]*parkedG{}
	w.threadOf = map[uint64]int{}
	w.curThread = 0
	w.mu.Unlock()
	deadline := time.Now().Add(30 * time.Second)
	settle := func() bool {
		w.mu.Lock()
		defer w.mu.Unlock()
		for !w.settledLocked() {
			if time.Now().After(deadline) {
				return false
			}
			waitCond(w.cond, 20*time.Millisecond)
		}
		return true
	}
	finish := func(tr []string, st string) ([]string, string) {
		w.mu.Lock()
		w.stepped = false
		w.threadOf = nil
		w.mu.Unlock()
		return tr, st
	}
	for t, p := range pkts {
		w.mu.Lock()
		w.curThread = t
		w.mu.Unlock()
		w.inject(p)
		if !settle() {
			return finish(nil, "HUNG")
		}
	}
	var trace []string
	for i := 0; ; i++ {
		w.mu.Lock()
		cand := make([]*parkedG, len(pkts))
		any := false
		for _, x := range w.parked {
			t := w.threadOf[x.gid]
			if t < 0 || t >= len(cand) {
				continue
			}
			if cand[t] == nil || x.gid < cand[t].gid {
				cand[t] = x
			}
			any = true
		}
		if !any {
			w.mu.Unlock()
			break
		}
		want := 0
		if i < len(sched) {
			want = sched[i]
		}
		pick := -1
		if want >= 0 && want < len(cand) && cand[want] != nil {
			pick = want
		} else {
			for t := range cand {
				if cand[t] != nil {
					pick = t
					break
				}
			}
		}
		pg := cand[pick]
		delete(w.parked, pg.gid)
		w.curThread = pick
		w.mu.Unlock()
		trace = append(trace, fmt.Sprintf("%d:%s", pick, gateName(pg.op)))
		pg.resume <- nil
		if !settle() {
			return finish(trace, "HUNG")
		}
	}
	return finish(trace, "done")
}
