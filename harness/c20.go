//go:build verif && !no_c20

package main

import (
	"fmt"
	"math/rand"
	"strings"
	"sync"
	"time"

	"github.com/lab5e/lospan/pkg/server"
)

func init() { suites["C20"] = suiteC20 }

// sequential operation sequences on the real EventRouter; every subscription has a reader
// that keeps reading, so what it received is the list of delivered events
func routerSeq(rng *rand.Rand, w *Writer) {
	w.Begin("router: a sequence of subscribe/unsubscribe/publish operations")
	r := server.NewEventRouter[int, int](4)
	type sub struct {
		ch   <-chan int
		mu   sync.Mutex
		got  []int
		done chan struct{}
	}
	var subs []*sub
	var ops []string
	n := 5 + rng.Intn(40)
	ev := 0
	for i := 0; i < n; i++ {
		switch rng.Intn(6) {
		case 0, 1:
			id := rng.Intn(3)
			s := &sub{ch: r.Subscribe(id), done: make(chan struct{})}
			go func() {
				for v := range s.ch {
					s.mu.Lock()
					s.got = append(s.got, v)
					s.mu.Unlock()
				}
				close(s.done)
			}()
			subs = append(subs, s)
			ops = append(ops, fmt.Sprintf("S%d", id))
		case 2:
			if len(subs) == 0 {
				continue
			}
			k := rng.Intn(len(subs))
			func() {
				defer func() { recover() }()
				r.Unsubscribe(subs[k].ch)
			}()
			ops = append(ops, fmt.Sprintf("U%d", k))
		default:
			id := rng.Intn(4)
			ev++
			r.Publish(id, ev)
			ops = append(ops, fmt.Sprintf("P%d:%d", id, ev))
		}
		w.Begin("router: operations performed so far: " + strings.Join(ops, ","))
	}
	// Publish has returned for every event, so each delivered event sits in a subscription's buffer or
	// with its reader: wait until every buffer is empty and the readers' totals have stopped moving
	total := func() int {
		n := 0
		for _, s := range subs {
			s.mu.Lock()
			n += len(s.got)
			s.mu.Unlock()
		}
		return n
	}
	stable, last := 0, -1
	for i := 0; i < 2000 && stable < 3; i++ {
		empty := true
		for _, s := range subs {
			if len(s.ch) != 0 {
				empty = false
			}
		}
		t := total()
		if empty && t == last {
			stable++
		} else {
			stable = 0
		}
		last = t
		time.Sleep(time.Millisecond)
	}
	var obs []string
	for _, s := range subs {
		closed := 0
		select {
		case <-s.done:
			closed = 1
		default:
		}
		s.mu.Lock()
		g := make([]string, len(s.got))
		for i, v := range s.got {
			g[i] = fmt.Sprint(v)
		}
		s.mu.Unlock()
		obs = append(obs, fmt.Sprintf("%s/%d", strings.Join(g, ","), closed))
	}
	w.Case("router", []string{"ops=" + strings.Join(ops, ",")}, strings.Join(obs, ";"))
	w.Count("router.seq")
}

// a publisher blocked on a full subscription while that subscription is unsubscribed: every
// linearisation delivers a prefix of the published events, never panics, closes the channel once
func routerConc(rng *rand.Rand, w *Writer) {
	w.Begin("router: publish blocked on a full subscription while it is unsubscribed")
	r := server.NewEventRouter[int, int](1)
	ch := r.Subscribe(7)
	other := r.Subscribe(8)
	r.Publish(7, 1) // fills the buffer
	panicked := make(chan string, 4)
	var wg sync.WaitGroup
	wg.Add(2)
	go func() {
		defer wg.Done()
		defer func() {
			if x := recover(); x != nil {
				panicked <- fmt.Sprint(x)
			}
		}()
		r.Publish(7, 2) // blocks until the reader takes event 1
	}()
	time.Sleep(time.Duration(1+rng.Intn(3)) * time.Millisecond)
	go func() {
		defer wg.Done()
		defer func() {
			if x := recover(); x != nil {
				panicked <- fmt.Sprint(x)
			}
		}()
		r.Unsubscribe(ch)
	}()
	time.Sleep(time.Duration(1+rng.Intn(3)) * time.Millisecond)
	var got []string
	closes := 0
	deadline := time.After(12 * time.Second)
loop:
	for {
		select {
		case v, ok := <-ch:
			if !ok {
				closes++
				break loop
			}
			got = append(got, fmt.Sprint(v))
		case <-deadline:
			break loop
		}
	}
	wg.Wait()
	obs := "ok"
	select {
	case p := <-panicked:
		obs = "PANIC:" + strings.ReplaceAll(p, " ", "_")
	default:
	}
	g := strings.Join(got, ",")
	if obs == "ok" && !(g == "1" || g == "1,2") {
		obs = "bad-delivery:" + g
	}
	if obs == "ok" && closes != 1 {
		obs = "not-closed"
	}
	select {
	case v := <-other:
		obs = fmt.Sprintf("foreign-delivery:%d", v)
	default:
	}
	w.Case("routerconc", []string{"k=1"}, obs)
	w.Count("router.conc")
}

// many subscriptions, a batch of them unsubscribed at the same moment from as many goroutines: afterwards every
// unsubscribed channel is closed (once), every other subscription is open, still routed, and gets the next event
// exactly once; nothing panics
func routerUnsubStorm(rng *rand.Rand, w *Writer) {
	w.Begin("router: many subscriptions unsubscribed at once")
	const nsub, nvict = 12000, 120 // long look-ups, many at once: the goroutines' look-ups overlap even when few processors are free
	r := server.NewEventRouter[int, int](2)
	chans := make([]<-chan int, nsub)
	for i := range chans {
		chans[i] = r.Subscribe(i % 7)
	}
	// victims among the last routes (the longest lookups), never two for the same channel
	victim := map[int]bool{}
	for len(victim) < nvict {
		victim[nsub-1-rng.Intn(600)] = true
	}
	panics := make(chan string, nvict)
	start := make(chan struct{})
	var wg sync.WaitGroup
	for i := range victim {
		wg.Add(1)
		go func(i int) {
			defer wg.Done()
			defer func() {
				if x := recover(); x != nil {
					panics <- fmt.Sprint(x)
				}
			}()
			<-start
			r.Unsubscribe(chans[i])
		}(i)
	}
	close(start)
	wg.Wait()
	obs := "ok"
	select {
	case p := <-panics:
		obs = "PANIC:" + strings.ReplaceAll(p, " ", "_")
	default:
	}
	if obs == "ok" {
		for id := 0; id < 7; id++ {
			r.Publish(id, 1000+id)
		}
		for i, ch := range chans {
			var got []int
			closed := false
		drain:
			for {
				select {
				case v, ok := <-ch:
					if !ok {
						closed = true
						break drain
					}
					got = append(got, v)
				default:
					break drain
				}
			}
			if victim[i] && !closed {
				obs = "victim-left-open"
				break
			}
			if !victim[i] && (closed || len(got) != 1 || got[0] != 1000+i%7) {
				obs = fmt.Sprintf("survivor-wrong:closed=%v,got=%v", closed, got)
				obs = strings.ReplaceAll(obs, " ", "_")
				break
			}
		}
	}
	w.Case("routerconc", []string{"k=storm"}, obs)
	w.Count("router.storm")
}

// several goroutines publish for one identifier at the same time while several subscribers of it keep reading: whatever
// order the publications take effect in (the router serialises them), every subscriber sees THAT order - the same sequence
// for all - every event once, each publisher's own events in the order it published them
func routerPublishers(rng *rand.Rand, w *Writer) {
	w.Begin("router: several goroutines publishing for one identifier")
	const npub, nev, nsub = 4, 60, 3
	r := server.NewEventRouter[int, int](npub * nev)
	subs := make([]<-chan int, nsub)
	for i := range subs {
		subs[i] = r.Subscribe(5)
	}
	bystander := r.Subscribe(6)
	start := make(chan struct{})
	var wg sync.WaitGroup
	for p := 0; p < npub; p++ {
		wg.Add(1)
		go func(p int) {
			defer wg.Done()
			<-start
			for i := 0; i < nev; i++ {
				r.Publish(5, p*1000+i)
			}
		}(p)
	}
	close(start)
	wg.Wait()
	seqs := make([][]int, nsub)
	for i, ch := range subs {
	drain:
		for {
			select {
			case v := <-ch:
				seqs[i] = append(seqs[i], v)
			default:
				break drain
			}
		}
	}
	obs := "ok"
	for i := range seqs {
		if len(seqs[i]) != npub*nev {
			obs = fmt.Sprintf("subscriber-%d-got-%d-of-%d", i, len(seqs[i]), npub*nev)
			break
		}
		last := map[int]int{}
		for _, v := range seqs[i] {
			p, k := v/1000, v%1000
			if prev, ok := last[p]; (ok && k != prev+1) || (!ok && k != 0) {
				obs = fmt.Sprintf("publisher-%d-out-of-order-at-subscriber-%d", p, i)
			}
			last[p] = k
		}
		if i > 0 && obs == "ok" {
			for j := range seqs[i] {
				if seqs[i][j] != seqs[0][j] {
					obs = fmt.Sprintf("subscribers-0-and-%d-disagree-on-the-order-at-%d", i, j)
					break
				}
			}
		}
		if obs != "ok" {
			break
		}
	}
	select {
	case v := <-bystander:
		obs = fmt.Sprintf("foreign-delivery:%d", v)
	default:
	}
	w.Case("routerconc", []string{"k=publishers"}, obs)
	w.Count("router.publishers")
}

// a subscriber that has stopped reading, in the middle of the routing table, with subscribers of the same identifier before
// and after it that keep reading: once its buffer is full a publication waits for it (10 s in the code) and goes on; every
// reading subscriber still gets every event once, in order - the one that stalled costs nobody else an event. Takes as long
// as the router waits, so it runs beside the other cases and is collected at the end.
func routerStalled(done chan<- string) {
	const capacity, before, after = 2, 3, 16
	r := server.NewEventRouter[int, int](capacity)
	type rd struct {
		ch  <-chan int
		got []int
	}
	var readers []*rd
	for i := 0; i < before; i++ {
		readers = append(readers, &rd{ch: r.Subscribe(7)})
	}
	stalled := r.Subscribe(7)
	for i := 0; i < after; i++ {
		readers = append(readers, &rd{ch: r.Subscribe(7)})
	}
	other := r.Subscribe(8)
	var wg sync.WaitGroup
	for _, x := range readers {
		wg.Add(1)
		go func(x *rd) {
			defer wg.Done()
			for v := range x.ch {
				x.got = append(x.got, v)
			}
		}(x)
	}
	const nev = capacity + 1 // the last one finds the stalled subscriber's buffer full
	t0 := time.Now()
	for i := 1; i <= nev; i++ {
		r.Publish(7, i)
	}
	waited := time.Since(t0)
	for _, x := range readers {
		r.Unsubscribe(x.ch)
	}
	wg.Wait()
	obs := "ok"
	for i, x := range readers {
		if len(x.got) != nev {
			obs = fmt.Sprintf("reading-subscriber-%d-of-%d-got-%v-of-%d-events-(one-subscriber-before-it-had-stopped-reading,-publication-waited-%dms)", i, len(readers), x.got, nev, waited.Milliseconds())
			break
		}
		for j, v := range x.got {
			if v != j+1 {
				obs = fmt.Sprintf("reading-subscriber-%d-got-%v", i, x.got)
			}
		}
	}
	var sg []int
	r.Unsubscribe(stalled)
	for v := range stalled {
		sg = append(sg, v)
	}
	if obs == "ok" && (len(sg) != capacity || sg[0] != 1 || sg[1] != 2) {
		obs = fmt.Sprintf("stalled-subscriber-holds-%v", sg)
	}
	select {
	case v := <-other:
		obs = fmt.Sprintf("foreign-delivery:%d", v)
	default:
	}
	done <- obs
}

func suiteC20(rng *rand.Rand, tier string, w *Writer) {
	n, m := 300, 25
	if tier == "thorough" {
		n, m = 6000, 400
	}
	stalledDone := make(chan string, 1)
	go routerStalled(stalledDone)
	for i := 0; i < n; i++ {
		routerSeq(rng, w)
	}
	for i := 0; i < m; i++ {
		routerConc(rng, w)
	}
	for i := 0; i < m/2+4; i++ {
		routerUnsubStorm(rng, w)
	}
	for i := 0; i < m/2+4; i++ {
		routerPublishers(rng, w)
	}
	w.Begin("router: a subscriber that stopped reading, readers before and after it")
	w.Case("routerconc", []string{"k=stalled"}, <-stalledDone)
	w.Count("router.stalled-subscriber")
}
