//go:build verif && !no_c13

package main

import (
	"fmt"
	"math/rand"
	"reflect"
	"strings"

	"github.com/lab5e/lospan/pkg/protocol"
)

func init() { suites["C13"] = suiteC13 }

func errCode(err error) int {
	switch err {
	case nil:
		return 0
	case protocol.ErrBufferTruncated:
		return 1
	case protocol.ErrNilError:
		return 2
	case protocol.ErrParameterOutOfRange:
		return 3
	case protocol.ErrInvalidParameterFormat:
		return 4
	case protocol.ErrCryptoError:
		return 5
	case protocol.ErrInvalidSource:
		return 6
	case protocol.ErrInvalidMessageType:
		return 7
	case protocol.ErrInvalidLoRaWANVersion:
		return 8
	case protocol.ErrInvalidMIC:
		return 10
	}
	if err.Error() == "unknown MAC command" {
		return 9
	}
	return 12
}

var macCIDs = []uint8{0x02, 0x03, 0x04, 0x05, 0x06, 0x07, 0x08, 0x10, 0x11, 0x12, 0x13}

func newMAC(up bool, cid uint8) protocol.MACCommand {
	if up {
		return protocol.NewUplinkMACCommand(protocol.CID(cid))
	}
	return protocol.NewDownlinkMACCommand(protocol.CID(cid))
}

// field access by reflection: field 0 is the embedded macBase
func macFieldKinds(cmd protocol.MACCommand) []reflect.Kind {
	v := reflect.ValueOf(cmd).Elem()
	var ks []reflect.Kind
	for i := 1; i < v.NumField(); i++ {
		ks = append(ks, v.Field(i).Kind())
	}
	return ks
}
func macSetFields(cmd protocol.MACCommand, vals []uint64) {
	v := reflect.ValueOf(cmd).Elem()
	for i := 1; i < v.NumField(); i++ {
		f := v.Field(i)
		if f.Kind() == reflect.Bool {
			f.SetBool(vals[i-1] != 0)
		} else {
			f.SetUint(vals[i-1])
		}
	}
}
func macGetFields(cmd protocol.MACCommand) []uint64 {
	v := reflect.ValueOf(cmd).Elem()
	var out []uint64
	for i := 1; i < v.NumField(); i++ {
		f := v.Field(i)
		if f.Kind() == reflect.Bool {
			if f.Bool() {
				out = append(out, 1)
			} else {
				out = append(out, 0)
			}
		} else {
			out = append(out, f.Uint())
		}
	}
	return out
}
func u64list(v []uint64) string {
	s := make([]string, len(v))
	for i, x := range v {
		s[i] = fmt.Sprint(x)
	}
	return "[" + strings.Join(s, ",") + "]"
}

func genFieldVal(rng *rand.Rand, k reflect.Kind) uint64 {
	var max uint64
	switch k {
	case reflect.Bool:
		return uint64(rng.Intn(2))
	case reflect.Uint8:
		max = 0xff
	case reflect.Uint16:
		max = 0xffff
	default:
		max = 0xffffffff
	}
	switch rng.Intn(8) {
	case 0:
		return 0
	case 1:
		return max
	case 2:
		return 1 << uint(rng.Intn(32)) & max
	case 3:
		return uint64(rng.Intn(16))
	case 4:
		return 0xffffff & max
	default:
		return rng.Uint64() & max
	}
}

func macCase(w *Writer, up bool, cid uint8, vals []uint64, buflen, pos int, rest []byte) {
	cmd := newMAC(up, cid)
	macSetFields(cmd, vals)
	buf := make([]byte, buflen)
	for i := range buf {
		buf[i] = 0xA5
	}
	p := pos
	encObs := ""
	var enc []byte
	func() {
		defer func() {
			if r := recover(); r != nil {
				encObs = "PANIC"
			}
		}()
		err := protocol.VerifEncodeMAC(cmd, buf, &p)
		if err != nil {
			encObs = fmt.Sprintf("err%d", errCode(err))
			return
		}
		enc = append([]byte{}, buf[pos:p]...)
		encObs = "ok:" + hx(enc)
		// nothing outside [pos,p) may change
		for i := range buf {
			if (i < pos || i >= p) && buf[i] != 0xA5 {
				encObs = "ok:" + hx(enc) + ":STRAY"
			}
		}
	}()
	decObs := "-"
	if enc != nil {
		// decode from a buffer holding the encoding at pos followed by rest
		dbuf := append(append(make([]byte, pos), enc...), rest...)
		z := newMAC(up, cid)
		dp := pos
		func() {
			defer func() {
				if r := recover(); r != nil {
					decObs = "PANIC"
				}
			}()
			err := protocol.VerifDecodeMAC(z, dbuf, &dp)
			if err != nil {
				decObs = fmt.Sprintf("err%d", errCode(err))
				return
			}
			decObs = fmt.Sprintf("ok:%s:%d", u64list(macGetFields(z)), dp-pos)
		}()
	}
	w.Case("maccmd", []string{kv("up", up), kv("cid", cid), "fields=" + u64list(vals), kv("buflen", buflen), kv("pos", pos), kv("rest", rest),
		kv("len", cmd.Length()), kv("cmdup", cmd.Uplink()), kv("id", int(cmd.ID()))}, encObs+" "+decObs)
	w.Count(fmt.Sprintf("maccmd.up=%v.cid=%02x", up, cid))
}

type setOp struct {
	up     bool
	cid    uint8
	vals   []uint64
	remove bool
}

func setCase(w *Writer, msg protocol.MType, max int, ops []setOp) {
	set := protocol.NewMACCommandSet(msg, max)
	var res []string
	var opstr []string
	for _, o := range ops {
		if o.remove {
			set.Remove(protocol.CID(o.cid))
			res = append(res, "r")
			opstr = append(opstr, fmt.Sprintf("r:%d", o.cid))
			continue
		}
		cmd := newMAC(o.up, o.cid)
		macSetFields(cmd, o.vals)
		ok := set.Add(cmd)
		if ok {
			res = append(res, "1")
		} else {
			res = append(res, "0")
		}
		vs := make([]string, len(o.vals))
		for i, x := range o.vals {
			vs[i] = fmt.Sprint(x)
		}
		u := 0
		if o.up {
			u = 1
		}
		opstr = append(opstr, fmt.Sprintf("a:%d:%d:%s", u, o.cid, strings.Join(vs, "/")))
	}
	var lst []string
	for _, c := range set.List() {
		u := 0
		if c.Uplink() {
			u = 1
		}
		lst = append(lst, fmt.Sprintf("%d:%d", u, c.ID()))
	}
	buf := make([]byte, 300)
	pos := 0
	encObs := ""
	func() {
		defer func() {
			if r := recover(); r != nil {
				encObs = "PANIC"
			}
		}()
		if err := protocol.VerifEncodeSet(&set, buf, &pos); err != nil {
			encObs = fmt.Sprintf("err%d", errCode(err))
			return
		}
		encObs = "ok:" + hx(buf[:pos])
	}()
	obs := fmt.Sprintf("%s [%s] %d %d %s", strings.Join(res, ""), strings.Join(lst, ","), set.EncodedLength(), set.Size(), encObs)
	w.Case("macset", []string{kv("msg", int(msg)), kv("max", max), "ops=" + strings.Join(opstr, ",")}, obs)
	w.Count(fmt.Sprintf("macset.max=%d", max))
}

func suiteC13(rng *rand.Rand, tier string, w *Writer) {
	per := 30
	if tier == "thorough" {
		per = 400
	}
	for _, up := range []bool{true, false} {
		for _, cid := range macCIDs {
			proto := newMAC(up, cid)
			kinds := macFieldKinds(proto)
			L := proto.Length()
			// exhaustive over small field spaces (<= 8 bits in total) and boundaries, then random
			total := 0
			for _, k := range kinds {
				switch k {
				case reflect.Bool:
					total++
				case reflect.Uint8:
					total += 8
				case reflect.Uint16:
					total += 16
				default:
					total += 32
				}
			}
			if total <= 8 && total > 0 {
				for v := 0; v < 1<<uint(total); v++ {
					vals := make([]uint64, len(kinds))
					x := v
					for i, k := range kinds {
						if k == reflect.Bool {
							vals[i] = uint64(x & 1)
							x >>= 1
						} else {
							vals[i] = uint64(x & 0xff)
							x >>= 8
						}
					}
					macCase(w, up, cid, vals, 40, 3, []byte{0x77, 0x01})
				}
			}
			for i := 0; i < per; i++ {
				vals := make([]uint64, len(kinds))
				for j, k := range kinds {
					vals[j] = genFieldVal(rng, k)
				}
				// buffer sizes around the required one
				pos := rng.Intn(5)
				buflen := pos + L + []int{-1, 0, 1, 2, 10}[rng.Intn(5)]
				if i%3 != 0 {
					buflen = pos + L + 1 + rng.Intn(20)
				}
				if buflen < 0 {
					buflen = 0
				}
				rest := randBytes(rng, rng.Intn(4))
				macCase(w, up, cid, vals, buflen, pos, rest)
			}
		}
	}
	// command sets: every limit 0..15 and 255, both directions, insertion orders
	nsets := 250
	if tier == "thorough" {
		nsets = 6000
	}
	msgs := []protocol.MType{protocol.UnconfirmedDataUp, protocol.ConfirmedDataUp, protocol.UnconfirmedDataDown, protocol.ConfirmedDataDown, protocol.JoinRequest, protocol.JoinAccept, protocol.Proprietary}
	for i := 0; i < nsets; i++ {
		msg := msgs[rng.Intn(len(msgs))]
		max := rng.Intn(17)
		if max == 16 {
			max = 255
		}
		n := rng.Intn(9)
		if max == 255 {
			n = rng.Intn(14)
		}
		var ops []setOp
		for j := 0; j < n; j++ {
			up := msg.Uplink()
			if rng.Intn(6) == 0 {
				up = !up
			}
			cid := macCIDs[rng.Intn(len(macCIDs))]
			if rng.Intn(10) == 0 && len(ops) > 0 {
				ops = append(ops, setOp{remove: true, cid: cid})
				continue
			}
			proto := newMAC(up, cid)
			kinds := macFieldKinds(proto)
			vals := make([]uint64, len(kinds))
			for k := range kinds {
				vals[k] = genFieldVal(rng, kinds[k])
			}
			ops = append(ops, setOp{up: up, cid: cid, vals: vals})
		}
		setCase(w, msg, max, ops)
	}
}
