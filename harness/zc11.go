//go:build verif && !no_c20

package main

import "math/rand"

// Every accepted uplink and every datagram of a gateway is published on an event router (decrypter -> application router,
// forwarder -> gateway event router) by a goroutine that does not recover: a subscriber that has stopped reading and is
// unsubscribed while a publication waits for it (an operator's stream that ends) must not take the publisher - the server -
// down. C11's check therefore runs the router's forced scenarios (the ones of C20) as well.
func init() {
	extraC11 = append(extraC11, func(rng *rand.Rand, tier string, w *Writer) {
		n := 10
		if tier == "thorough" {
			n = 120
		}
		for i := 0; i < n; i++ {
			routerConc(rng, w)
		}
	})
}
