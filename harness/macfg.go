//go:build verif

package main

import (
	"fmt"
	"math/rand"
	"strings"

	"github.com/lab5e/lospan/pkg/protocol"
	"github.com/lab5e/lospan/pkg/server"
)

// "the configured MA prefix": the prefix reaches the generator as text in the configuration (server.Parameters.MA, checked
// by Validate, converted by RootMA). Text of every shape - whole octets with and without dashes, upper and lower case, the
// seven- and nine-digit spellings in which MA-M and MA-S blocks are printed, white space, wrong lengths, other characters -
// is either refused by Validate or yields identifiers that start with the digits configured.
func maConfigCase(rng *rand.Rand, w *Writer) {
	hexd := "0123456789abcdefABCDEF"
	digits := func(n int) string {
		b := make([]byte, n)
		for i := range b {
			b[i] = hexd[rng.Intn(len(hexd))]
		}
		return string(b)
	}
	dashed := func(s string) string {
		var g []string
		for len(s) > 2 {
			g = append(g, s[:2])
			s = s[2:]
		}
		g = append(g, s)
		return strings.Join(g, "-")
	}
	var s string
	switch rng.Intn(10) {
	case 0, 1, 2:
		s = dashed(digits([]int{6, 8, 10}[rng.Intn(3)]))
	case 3:
		s = digits([]int{6, 8, 10}[rng.Intn(3)])
	case 4, 5:
		s = dashed(digits([]int{7, 9}[rng.Intn(2)])) // as MA-M / MA-S assignments are printed
	case 6:
		s = dashed(digits([]int{0, 1, 2, 4, 5, 11, 12, 16}[rng.Intn(8)]))
	case 7:
		s = " " + dashed(digits(6+2*rng.Intn(3))) + []string{"", " ", "\n"}[rng.Intn(3)]
	case 8:
		s = dashed(digits(6 + 2*rng.Intn(3)))
		b := []byte(s)
		b[rng.Intn(len(b))] = "gG:_ .x"[rng.Intn(7)]
		s = string(b)
	default:
		s = strings.Replace(dashed(digits(6+2*rng.Intn(3))), "-", []string{"--", ":", "- "}[rng.Intn(3)], 1)
	}
	netid := uint32(rng.Intn(1 << 7))
	id := uint32([]int{1, 2, 1000, 1<<24 + 5, 1<<25 - 1}[rng.Intn(5)])
	obs := ""
	func() {
		defer func() {
			if r := recover(); r != nil {
				obs = "PANIC"
			}
		}()
		cfg := server.Parameters{MA: s, ConnectionString: ":memory:", NetworkID: uint(netid)}
		if err := cfg.Validate(); err != nil {
			obs = "err"
			return
		}
		ma := cfg.RootMA()
		e := protocol.NewDeviceEUI(ma, netid, id)
		obs = fmt.Sprintf("ok:%d:%016x", ma.Size, uint64(e.ToInt64()))
	}()
	w.Case("macfg", []string{kv("s", []byte(s)), fmt.Sprintf("netid=%d", netid), fmt.Sprintf("id=%d", id)}, obs)
	w.Count("keygen.configured-prefix-text")
}

func init() {
	k19 := suites["C19"]
	suites["C19"] = func(rng *rand.Rand, tier string, w *Writer) {
		k19(rng, tier, w)
		n := 200
		if tier == "thorough" {
			n = 4000
		}
		for i := 0; i < n; i++ {
			maConfigCase(rng, w)
		}
	}
}
