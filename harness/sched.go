package main

import (
	"encoding/binary"
	"fmt"
	"math/rand"
	"sort"
	"strings"
	"time"

	"github.com/lab5e/lospan/pkg/model"
	"github.com/lab5e/lospan/pkg/protocol"
	"github.com/lab5e/lospan/pkg/server"
)

// Forced schedules: two frames of one device whose handlers are interleaved operation by
// operation on the real pipeline (gate hooks), in an order chosen here.
func schedCase(rng *rand.Rand, w *Writer, suite string, kind string, canonical int, nh int) {
	opts := worldOpts{netID: uint(rng.Intn(1 << 24))}
	world := newWorld(opts)
	defer world.close()
	h := &histRunner{w: world, rng: rng, tags: w.Stats, lastValid: map[int][]byte{}}
	h.gws = []uint64{genEUI(rng), genEUI(rng), genEUI(rng)}
	a := eui64(genEUI(rng))
	h.apps = []protocol.EUI{a}
	world.store.CreateApplication(model.Application{AppEUI: a})
	world.watchApp(a)
	d := &simDev{eui: eui64(genEUI(rng)), appeui: a, appkey: genKey(rng), relaxed: false}
	state := model.PersonalizedDevice
	if kind == "join-copies" || kind == "forged-join" {
		d.otaa = true
		d.nwk, d.app = make([]byte, 16), make([]byte, 16)
		state = model.OverTheAirDevice
	} else if kind == "rejoin" {
		// an OTAA device in an established session; it joins again while a frame of the old session is still on its way
		d.otaa = true
		state = model.OverTheAirDevice
		d.nwk, d.app = randBytes(rng, 16), randBytes(rng, 16)
		d.addr = rng.Uint32() & 0x01ffffff
		d.joined = true
		d.fup0 = []uint16{1, 100, 40000}[rng.Intn(3)]
		d.fdn0 = []uint16{1, 7, 30000}[rng.Intn(3)]
		d.relaxed = rng.Intn(3) == 0 || canonical == 3
		d.fcnt = d.fup0
	} else {
		d.nwk, d.app = randBytes(rng, 16), randBytes(rng, 16)
		d.addr = rng.Uint32()
		d.joined = true
		d.fup0 = []uint16{0, 1, 100, 40000}[rng.Intn(4)]
		d.fdn0 = []uint16{0, 7, 30000}[rng.Intn(3)]
		if kind == "regressed" {
			// a relaxed-counter device whose second frame carries a counter below the stored one
			d.relaxed = true
			d.fup0 = []uint16{1, 100, 40000}[rng.Intn(3)]
		}
		d.fcnt = d.fup0
	}
	md := mkDevice(d.eui, d.appeui, d.addr, d.appkey, d.nwk, d.app, d.fup0, d.fdn0, d.relaxed, state)
	world.store.CreateDevice(md, d.appeui)
	d.registered = true
	h.devs = []*simDev{d}
	pop := fmt.Sprintf("%x:%x:%s:%s:%s:%x:%d:%d:%d:%d", uint64(d.eui.ToInt64()), d.addr, hx(d.appkey), hx(d.nwk), hx(d.app),
		uint64(d.appeui.ToInt64()), d.fup0, d.fdn0, b01(d.relaxed), int(state))
	// queued downstream data, so that answers carry a payload
	releaseCase := suite == "schedC07" && kind == "consecutive" && canonical == 2 && nh == 2
	if releaseCase || ((suite == "schedC07" || suite == "schedC03") && kind != "join-copies" && kind != "forged-join" && canonical != 3 && rng.Intn(4) == 0) {
		// the oldest queued message cannot be marshalled (a port the frame format has no room for; the service refuses such
		// ports, the table does not): its encoder must not use up - or hand back - a frame counter while another works
		h.submit(d, uint8([]int{0, 224, 255}[rng.Intn(3)]), rng.Intn(2) == 0, randBytes(rng, 1+rng.Intn(20)))
		w.Count("sched.unmarshallable-queued")
		if releaseCase || rng.Intn(2) == 0 {
			h.submit(d, uint8(1+rng.Intn(200)), rng.Intn(2) == 0, randBytes(rng, 1+rng.Intn(20)))
		}
	} else if suite == "schedC06" {
		// two queued messages, the second often no longer than the first: each frame must carry its own message's bytes
		// whatever the other handler does to the output buffer meanwhile
		n1 := 1 + rng.Intn(20)
		n2 := 1 + rng.Intn(20)
		if (rng.Intn(3) != 0 || canonical == 3) && n2 > n1 {
			n1, n2 = n2, n1 // (always in the canonical schedule: the second message fits into the first one's array)
		}
		// (in the canonical schedule the first message does not ask for an acknowledgement: a confirmed one would be loaded
		// again by the second uplink - the retransmission of C08 - and the second message would not come into play)
		h.submit(d, uint8(1+rng.Intn(200)), rng.Intn(2) == 0 && canonical != 3, randBytes(rng, n1))
		h.submit(d, uint8(1+rng.Intn(200)), rng.Intn(2) == 0, randBytes(rng, n2))
	} else if canonical == 3 && kind == "rejoin" {
		// nothing queued: the uplink's handler leaves the buffer entry alone and can collect the join-accept
	} else if canonical == 3 && kind != "join-copies" && kind != "forged-join" {
		// exactly one queued message: the first handler's answer carries it, the second handler has nothing to send
		h.submit(d, uint8(1+rng.Intn(200)), false, randBytes(rng, 1+rng.Intn(20)))
	} else if kind != "join-copies" && kind != "forged-join" && rng.Intn(2) == 0 {
		h.submit(d, uint8(1+rng.Intn(200)), rng.Intn(2) == 0, randBytes(rng, 1+rng.Intn(20)))
		if rng.Intn(2) == 0 {
			h.submit(d, uint8(1+rng.Intn(200)), rng.Intn(2) == 0, randBytes(rng, 1+rng.Intn(20)))
		}
	}
	pre := append([]string{}, h.events...)
	var f1, f2 []byte
	confirmedUp := false
	switch kind {
	case "copies":
		f1 = h.validUplink(d, canonical != 3 && rng.Intn(2) == 0, rng.Intn(3) == 0, d.fcnt, 1+rng.Intn(200), randBytes(rng, rng.Intn(20)), nil)
		f2 = f1
	case "consecutive":
		confirmed := rng.Intn(2) == 0
		confirmedUp = confirmed
		f1 = h.validUplink(d, confirmed, false, d.fcnt, 1+rng.Intn(200), randBytes(rng, rng.Intn(20)), nil)
		f2 = h.validUplink(d, confirmed, rng.Intn(3) == 0, d.fcnt+1, 1+rng.Intn(200), randBytes(rng, rng.Intn(20)), nil)
	case "regressed":
		f1 = h.validUplink(d, true, false, d.fcnt, 1+rng.Intn(200), randBytes(rng, rng.Intn(20)), nil)
		f2 = h.validUplink(d, true, false, uint16(rng.Intn(int(d.fup0))), 1+rng.Intn(200), randBytes(rng, rng.Intn(20)), nil)
	case "rejoin":
		nonce := uint16(rng.Intn(65536))
		d.lastNonce = nonce
		f1 = refJoinRequest(d.appkey, d.appeui, d.eui, nonce)
		confirmedUp = rng.Intn(2) == 0
		f2 = h.validUplink(d, confirmedUp, false, d.fcnt, 1+rng.Intn(200), randBytes(rng, rng.Intn(20)), nil)
	case "join-copies":
		nonce := uint16(rng.Intn(65536))
		d.lastNonce = nonce
		f1 = refJoinRequest(d.appkey, d.appeui, d.eui, nonce)
		f2 = f1
	case "forged-join":
		// a genuine join-request and, handled at the same time, one for the same device signed with another key (another
		// DevNonce): whatever the handlers' order, only the genuine one may have any effect
		nonce := uint16(rng.Intn(65536))
		d.lastNonce = nonce
		f1 = refJoinRequest(d.appkey, d.appeui, d.eui, nonce)
		wrong := genKey(rng)
		if hx(wrong) == hx(d.appkey) {
			wrong = append([]byte{}, d.appkey...)
			wrong[rng.Intn(16)] ^= 1 << uint(rng.Intn(8))
		}
		f2 = refJoinRequest(wrong, d.appeui, d.eui, nonce+1+uint16(rng.Intn(1000)))
		if rng.Intn(2) == 0 {
			f1, f2 = f2, f1
		}
	}
	mk := func(raw []byte, gw uint64, ts int64) (server.GatewayPacket, string) {
		datr := datrs[rng.Intn(len(datrs))]
		rssi := int32(-rng.Intn(130))
		snr8 := rng.Intn(281) - 160
		ch := uint8(rng.Intn(8))
		clock := rng.Uint32()
		return server.GatewayPacket{
			RawMessage: append([]byte{}, raw...),
			Radio:      server.RadioContext{Channel: ch, RFChain: 0, Frequency: 868.1, DataRate: datr, Band: eu868, RSSI: rssi, SNR: float32(snr8) / 8},
			Gateway:    server.GatewayContext{GatewayEUI: eui64(gw), GatewayHost: "127.0.0.1", GatewayPort: 1700, GatewayClock: clock, ProtocolVersion: 2},
			ReceivedAt: time.Unix(0, 1600000000000000000+ts),
		}, fmt.Sprintf("R,%s,%x,%d,%s,%d/%d,%d,%d", hx(raw), gw, ts, datr, rssi, snr8, ch, clock)
	}
	p1, e1 := mk(f1, h.gws[0], 1000000)
	p2, e2 := mk(f2, h.gws[1], 2000000)
	if nh == 3 {
		// a third handler: one more copy of the first frame (or, for consecutive frames, the frame after the second)
		f3 := f1
		if kind == "consecutive" && rng.Intn(2) == 0 {
			f3 = h.validUplink(d, rng.Intn(2) == 0, false, d.fcnt+2, 1+rng.Intn(200), randBytes(rng, rng.Intn(20)), nil)
		}
		p3, e3 := mk(f3, h.gws[2], 3000000)
		var sched3 []int
		if canonical > 0 {
			sched3 = []int{0, 1, 2} // all three read the device before any of them writes
			if canonical == 2 {
				sched3 = []int{2, 1, 0, 2, 1, 0, 2, 2, 2, 2, 2, 2, 2, 2, 2, 2, 2, 2, 1, 1, 1, 1, 1, 1, 1, 1, 1, 1, 1, 1}
			}
		} else {
			if rng.Intn(2) == 0 {
				for i := 0; i < 45; i++ {
					sched3 = append(sched3, rng.Intn(3))
				}
			} else {
				for len(sched3) < 50 {
					who := rng.Intn(3)
					for i := 1 + rng.Intn(12); i > 0; i-- {
						sched3 = append(sched3, who)
					}
				}
			}
		}
		trace, status := world.runSchedN([]server.GatewayPacket{p1, p2, p3}, sched3)
		if status == "HUNG" || !world.quiesce() {
			w.Case(suite, []string{"kind=" + kind, "pop=" + pop}, "HUNG")
			return
		}
		downs, _, _ := world.collect()
		appnonce, newaddr := "", uint32(0)
		var dl []string
		for _, x := range downs {
			dl = append(dl, dlStr(x))
			if len(x.RawMessage) == 17 && x.RawMessage[0]>>5 == 1 {
				dec := aesEnc(d.appkey, x.RawMessage[1:])
				appnonce = hx(dec[0:3])
				newaddr = binary.LittleEndian.Uint32(dec[6:10])
			}
		}
		if (kind == "join-copies" || kind == "rejoin" || kind == "forged-join") && appnonce == "" {
			appnonce, newaddr = h.recoverAppNonce(d)
		}
		sort.Strings(dl)
		bits := make([]string, len(sched3))
		for i, b := range sched3 {
			bits[i] = fmt.Sprint(b)
		}
		tail := fmt.Sprintf(",%s,%x", appnonce, newaddr)
		w.Case(suite, []string{fmt.Sprintf("cfg=%d:0", opts.netID), fmt.Sprintf("apps=%x", uint64(a.ToInt64())), "pop=" + pop,
			"pre=" + strings.Join(pre, "|"), "f1=" + e1 + tail, "f2=" + e2 + tail, "f3=" + e3 + tail,
			"kind=" + kind, "sched=" + strings.Join(bits, "")},
			"D["+strings.Join(dl, ";")+"] P[] "+h.dumpAll()+" ; trace{"+strings.Join(trace, ",")+"}")
		w.Count("sched3." + kind)
		return
	}
	var sched []bool
	switch canonical {
	case 1, 3: // both handlers read the device before either writes; then the first runs on, then the second
		sched = []bool{false, true}
		if kind == "rejoin" {
			// the uplink's handler reads the device, the join runs to its end, the uplink's handler goes on
			sched = []bool{true}
			if canonical == 3 {
				// ... the join runs up to UpdateDevice; the uplink's handler (relaxed counter, nothing queued) goes on until
				// it stands at its buffer read (it holds the device's slot); the join hands its record to the buffer and is
				// dropped at its own buffer read as a duplicate; the uplink's handler reads the buffer and sends the join-accept
				sched = []bool{true, false, false, false, false, false}
				k := 5 // AdvanceFCntUp CreateUpstreamMessage GetApplicationByEUI ResetActiveAcks GetNextUnsentMessage
				if confirmedUp {
					k++ // SetMessageAckFlag
				}
				for i := 0; i < k; i++ {
					sched = append(sched, true)
				}
				sched = append(sched, false)
				for i := 0; i < 12; i++ {
					sched = append(sched, true)
				}
			}
		} else if suite == "schedC06" && canonical == 3 {
			// the first handler up to and including its buffer read, the second up to and including its SetPayload, the
			// first to its end (its encoder works on the frame assembled before), then the second
			sched = nil
			k := 9 // GetDevice AdvanceFCntUp CreateUpstreamMessage GetApplicationByEUI ResetActiveAcks|UpdateMessageAckTime GetNextUnsentMessage SetPayload SetMessageSentTime GetPHYPayloadForDevice
			if confirmedUp {
				k++ // SetMessageAckFlag
			}
			for i := 0; i < k; i++ {
				sched = append(sched, false)
			}
			for i := 0; i < k-2; i++ {
				sched = append(sched, true)
			}
			for i := 0; i < 12; i++ {
				sched = append(sched, false)
			}
		}
	case 2: // second frame first, alternating through the counter writes; the second frame then runs on and the first finishes last
		sched = []bool{true, false, true, false}
		for i := 0; i < 26; i++ {
			sched = append(sched, true)
		}
		if releaseCase {
			// the first handler gets the message that cannot be marshalled: it runs up to its buffer read and one operation
			// further (nothing, on this code: it has stopped; a counter reservation, on code that reserves first), then the
			// second handler runs from start to end, then the first one finishes (and must not hand a counter back)
			sched = nil
			k := 10
			if confirmedUp {
				k++
			}
			for i := 0; i < k; i++ {
				sched = append(sched, false)
			}
			for i := 0; i < 24; i++ {
				sched = append(sched, true)
			}
		}
	default:
		if rng.Intn(2) == 0 {
			for i := 0; i < 30; i++ {
				sched = append(sched, rng.Intn(2) == 0)
			}
		} else {
			// runs of several operations of one handler (whole phases of a handler overlap with the other's)
			who := rng.Intn(2) == 0
			for len(sched) < 36 {
				for i := 1 + rng.Intn(12); i > 0; i-- {
					sched = append(sched, who)
				}
				who = !who
			}
		}
	}
	trace, status := world.runSched(p1, p2, sched)
	if status == "HUNG" || !world.quiesce() {
		w.Case(suite, []string{"kind=" + kind, "pop=" + pop}, "HUNG")
		return
	}
	downs, _, _ := world.collect()
	appnonce, newaddr := "", uint32(0)
	var dl []string
	for _, x := range downs {
		dl = append(dl, dlStr(x))
		if len(x.RawMessage) == 17 && x.RawMessage[0]>>5 == 1 {
			dec := aesEnc(d.appkey, x.RawMessage[1:])
			appnonce = hx(dec[0:3])
			newaddr = binary.LittleEndian.Uint32(dec[6:10])
		}
	}
	if (kind == "join-copies" || kind == "rejoin" || kind == "forged-join") && appnonce == "" {
		appnonce, newaddr = h.recoverAppNonce(d)
	}
	sort.Strings(dl)
	bits := make([]string, len(sched))
	for i, b := range sched {
		bits[i] = fmt.Sprint(b01(b))
	}
	w.Case(suite, []string{fmt.Sprintf("cfg=%d:0", opts.netID), fmt.Sprintf("apps=%x", uint64(a.ToInt64())), "pop=" + pop,
		"pre=" + strings.Join(pre, "|"), "f1=" + e1 + fmt.Sprintf(",%s,%x", appnonce, newaddr), "f2=" + e2 + fmt.Sprintf(",%s,%x", appnonce, newaddr),
		"kind=" + kind, "sched=" + strings.Join(bits, "")},
		"D["+strings.Join(dl, ";")+"] P[] "+h.dumpAll()+" ; trace{"+strings.Join(trace, ",")+"}")
	w.Count("sched." + kind)
	if canonical > 0 {
		w.Count("sched.canonical")
	}
}

func schedSuite(suite string, kinds []string, quickN, thoroughN int) suiteFunc {
	return func(rng *rand.Rand, tier string, w *Writer) {
		n := quickN
		if tier == "thorough" {
			n = thoroughN
		}
		if suite == "schedC05" || suite == "schedC04" {
			for i := 0; i < 4; i++ {
				joinWindowCase(rng, w, suite)
			}
		}
		if suite == "schedC03" {
			for i := 0; i < 8; i++ {
				sharedKeyCopiesCase(rng, w, suite)
			}
		}
		if suite == "schedC06" {
			for i := 0; i < 4; i++ {
				sharedAddrQueueCase(rng, w, suite)
			}
		}
		if suite == "schedC09" {
			for i := 0; i < 3; i++ {
				windowCase(rng, w, suite)
			}
			for i := 0; i < 2; i++ {
				window2Case(rng, w, suite)
			}
			for i := 0; i < 8; i++ {
				burstCase(rng, w, suite)
			}
		}
		for i := 0; i < n; i++ {
			kind := kinds[i%len(kinds)]
			c := 0
			if i < 6*len(kinds) {
				c = 1 + (i/len(kinds))%3
			}
			schedCase(rng, w, suite, kind, c, 2)
		}
		// three handlers at once (copies through three gateways; three frames)
		n3 := 6
		if tier == "thorough" {
			n3 = 100
		}
		for i := 0; i < n3; i++ {
			c := 0
			if i < 2*len(kinds) {
				c = 1 + (i/len(kinds))%2
			}
			schedCase(rng, w, suite, kinds[i%len(kinds)], c, 3)
		}
	}
}

// A second copy of a confirmed uplink of a relaxed-counter device arrives through another gateway while the
// first is waiting for its receive window (real time, no stepping): the scheduler holds one slot per device
// from the notification until the buffer has been read, so the copy's own answer is dropped as a duplicate
// and its acknowledgement request rides on the one answer. A later unconfirmed uplink must not carry an ACK.
func windowCase(rng *rand.Rand, w *Writer, suite string) {
	opts := worldOpts{netID: uint(rng.Intn(1 << 24)), rxDelay: 400 * time.Millisecond}
	world := newWorld(opts)
	defer world.close()
	h := &histRunner{w: world, rng: rng, tags: w.Stats, lastValid: map[int][]byte{}}
	h.gws = []uint64{genEUI(rng), genEUI(rng)}
	a := eui64(genEUI(rng))
	h.apps = []protocol.EUI{a}
	world.store.CreateApplication(model.Application{AppEUI: a})
	world.watchApp(a)
	d := &simDev{eui: eui64(genEUI(rng)), appeui: a, appkey: genKey(rng), relaxed: true}
	d.nwk, d.app = randBytes(rng, 16), randBytes(rng, 16)
	d.addr = rng.Uint32()
	d.joined = true
	d.fup0 = []uint16{0, 1, 100}[rng.Intn(3)]
	d.fdn0 = []uint16{0, 7}[rng.Intn(2)]
	d.fcnt = d.fup0
	world.store.CreateDevice(mkDevice(d.eui, d.appeui, d.addr, d.appkey, d.nwk, d.app, d.fup0, d.fdn0, d.relaxed, model.PersonalizedDevice), d.appeui)
	d.registered = true
	h.devs = []*simDev{d}
	pop := fmt.Sprintf("%x:%x:%s:%s:%s:%x:%d:%d:%d:%d", uint64(d.eui.ToInt64()), d.addr, hx(d.appkey), hx(d.nwk), hx(d.app),
		uint64(d.appeui.ToInt64()), d.fup0, d.fdn0, b01(d.relaxed), int(model.PersonalizedDevice))
	if rng.Intn(2) == 0 {
		h.submit(d, uint8(1+rng.Intn(200)), false, randBytes(rng, 1+rng.Intn(20)))
	}
	pre := append([]string{}, h.events...)
	f1 := h.validUplink(d, true, false, d.fcnt, 1+rng.Intn(200), randBytes(rng, rng.Intn(20)), nil)
	f3 := h.validUplink(d, false, false, d.fcnt+1, 1+rng.Intn(200), randBytes(rng, rng.Intn(20)), nil)
	mk := func(raw []byte, gw uint64) (server.GatewayPacket, string) {
		datr := datrs[rng.Intn(len(datrs))]
		rssi := int32(-rng.Intn(130))
		snr8 := rng.Intn(281) - 160
		ch := uint8(rng.Intn(8))
		clock := rng.Uint32()
		now := time.Now()
		ts := now.UnixNano() - 1600000000000000000
		return server.GatewayPacket{
			RawMessage: append([]byte{}, raw...),
			Radio:      server.RadioContext{Channel: ch, RFChain: 0, Frequency: 868.1, DataRate: datr, Band: eu868, RSSI: rssi, SNR: float32(snr8) / 8},
			Gateway:    server.GatewayContext{GatewayEUI: eui64(gw), GatewayHost: "127.0.0.1", GatewayPort: 1700, GatewayClock: clock, ProtocolVersion: 2},
			ReceivedAt: now,
		}, fmt.Sprintf("R,%s,%x,%d,%s,%d/%d,%d,%d,,0", hx(raw), gw, ts, datr, rssi, snr8, ch, clock)
	}
	render := func() string {
		downs, _, _ := world.collect()
		var dl []string
		for _, x := range downs {
			dl = append(dl, dlStr(x))
		}
		sort.Strings(dl)
		return "D[" + strings.Join(dl, ";") + "] P[] " + h.dumpAll()
	}
	p1, e1 := mk(f1, h.gws[0])
	world.inject(p1)
	time.Sleep(30 * time.Millisecond) // well inside the first copy's window
	p2, e2 := mk(f1, h.gws[1])
	world.inject(p2)
	if !world.quiesce() {
		w.Case(suite, []string{"kind=window", "pop=" + pop}, "HUNG")
		return
	}
	o1 := render()
	p3, e3 := mk(f3, h.gws[0])
	world.inject(p3)
	if !world.quiesce() {
		w.Case(suite, []string{"kind=window", "pop=" + pop}, "HUNG")
		return
	}
	o2 := render()
	w.Case(suite, []string{fmt.Sprintf("cfg=%d:0", opts.netID), fmt.Sprintf("apps=%x", uint64(a.ToInt64())), "pop=" + pop,
		"pre=" + strings.Join(pre, "|"), "f1=" + e1, "f2=" + e2, "f3=" + e3, "kind=window", "sched="}, o1+"|"+o2)
	w.Count("sched.window")
}

// One join-request heard by two gateways, the second report arriving while the first one's join-accept is waiting for its
// receive window (real time, no stepping) - with the nonce check on (the copy is refused) and off (the copy is honoured as
// well: it replaces the session and the record in the output buffer, its own notification is dropped as a duplicate, and the
// ONE join-accept that leaves when the window opens is read from the buffer then). Whichever it is: one join-accept leaves,
// and the session stored afterwards is the one that join-accept conveys.
func joinWindowCase(rng *rand.Rand, w *Writer, suite string) {
	nonceOff := rng.Intn(3) != 0
	opts := worldOpts{netID: uint(rng.Intn(1 << 24)), rxDelay: 400 * time.Millisecond, disableNonceCheck: nonceOff}
	world := newWorld(opts)
	defer world.close()
	h := &histRunner{w: world, rng: rng, tags: w.Stats, lastValid: map[int][]byte{}}
	h.gws = []uint64{genEUI(rng), genEUI(rng)}
	a := eui64(genEUI(rng))
	h.apps = []protocol.EUI{a}
	world.store.CreateApplication(model.Application{AppEUI: a})
	world.watchApp(a)
	d := &simDev{eui: eui64(genEUI(rng)), appeui: a, appkey: genKey(rng), otaa: true}
	d.nwk, d.app = make([]byte, 16), make([]byte, 16)
	if rng.Intn(2) == 0 {
		// joining again from an established session
		d.nwk, d.app = randBytes(rng, 16), randBytes(rng, 16)
		d.addr = rng.Uint32() & 0x01ffffff
		d.joined = true
		d.fup0, d.fdn0 = []uint16{1, 100}[rng.Intn(2)], []uint16{1, 7}[rng.Intn(2)]
	}
	world.store.CreateDevice(mkDevice(d.eui, d.appeui, d.addr, d.appkey, d.nwk, d.app, d.fup0, d.fdn0, d.relaxed, model.OverTheAirDevice), d.appeui)
	d.registered = true
	h.devs = []*simDev{d}
	pop := fmt.Sprintf("%x:%x:%s:%s:%s:%x:%d:%d:%d:%d", uint64(d.eui.ToInt64()), d.addr, hx(d.appkey), hx(d.nwk), hx(d.app),
		uint64(d.appeui.ToInt64()), d.fup0, d.fdn0, b01(d.relaxed), int(model.OverTheAirDevice))
	nonce := uint16(rng.Intn(65536))
	d.lastNonce = nonce
	f1 := refJoinRequest(d.appkey, d.appeui, d.eui, nonce)
	type pk struct {
		p                server.GatewayPacket
		gw               uint64
		ts               int64
		datr             string
		rssi             int32
		snr8, ch, clock_ int
	}
	mk := func(gw uint64) pk {
		x := pk{gw: gw, datr: datrs[rng.Intn(len(datrs))], rssi: int32(-rng.Intn(130)), snr8: rng.Intn(281) - 160, ch: rng.Intn(8), clock_: int(rng.Uint32())}
		now := time.Now()
		x.ts = now.UnixNano() - 1600000000000000000
		x.p = server.GatewayPacket{
			RawMessage: append([]byte{}, f1...),
			Radio:      server.RadioContext{Channel: uint8(x.ch), RFChain: 0, Frequency: 868.1, DataRate: x.datr, Band: eu868, RSSI: x.rssi, SNR: float32(x.snr8) / 8},
			Gateway:    server.GatewayContext{GatewayEUI: eui64(gw), GatewayHost: "127.0.0.1", GatewayPort: 1700, GatewayClock: uint32(x.clock_), ProtocolVersion: 2},
			ReceivedAt: now,
		}
		return x
	}
	x1 := mk(h.gws[0])
	t1 := time.Now()
	world.inject(x1.p)
	time.Sleep(30 * time.Millisecond) // well inside the first report's window
	x2 := mk(h.gws[1])
	world.inject(x2.p)
	if time.Since(t1) > 250*time.Millisecond {
		// a machine so busy that the second report may have missed the first one's window: not the case meant
		world.quiesce()
		w.Count("sched.joinwindow.too-late-skipped")
		return
	}
	if !world.quiesce() {
		w.Case(suite, []string{"kind=joinwindow", "pop=" + pop}, "HUNG")
		return
	}
	downs, _, _ := world.collect()
	var dl []string
	appnonce, newaddr := "", uint32(0)
	for _, x := range downs {
		dl = append(dl, dlStr(x))
		if len(x.RawMessage) == 17 && x.RawMessage[0]>>5 == 1 {
			dec := aesEnc(d.appkey, x.RawMessage[1:])
			appnonce = hx(dec[0:3])
			newaddr = binary.LittleEndian.Uint32(dec[6:10])
		}
	}
	if appnonce == "" {
		appnonce, newaddr = h.recoverAppNonce(d)
	}
	sort.Strings(dl)
	ev := func(x pk) string {
		return fmt.Sprintf("R,%s,%x,%d,%s,%d/%d,%d,%d,%s,%x", hx(f1), x.gw, x.ts, x.datr, x.rssi, x.snr8, x.ch, x.clock_, appnonce, newaddr)
	}
	w.Case(suite, []string{fmt.Sprintf("cfg=%d:%d", opts.netID, b01(nonceOff)), fmt.Sprintf("apps=%x", uint64(a.ToInt64())), "pop=" + pop,
		"pre=", "f1=" + ev(x1), "f2=" + ev(x2), "kind=joinwindow", "sched="}, "D["+strings.Join(dl, ";")+"] P[] "+h.dumpAll())
	w.Count(fmt.Sprintf("sched.joinwindow.nonce-check-off=%d", b01(nonceOff)))
}

// Two devices that share a DevAddr (different keys; the decrypter tells them apart by the MIC) send a confirmed uplink
// each inside one receive window (real time, no stepping): the scheduler's slot is per device, so each is answered -
// once, with the ACK flag, under its own keys.
func window2Case(rng *rand.Rand, w *Writer, suite string) {
	opts := worldOpts{netID: uint(rng.Intn(1 << 24)), rxDelay: 400 * time.Millisecond}
	world := newWorld(opts)
	defer world.close()
	h := &histRunner{w: world, rng: rng, tags: w.Stats, lastValid: map[int][]byte{}}
	h.gws = []uint64{genEUI(rng), genEUI(rng)}
	a := eui64(genEUI(rng))
	h.apps = []protocol.EUI{a}
	world.store.CreateApplication(model.Application{AppEUI: a})
	world.watchApp(a)
	addr := rng.Uint32()
	var pops []string
	for i := 0; i < 2; i++ {
		d := &simDev{eui: eui64(genEUI(rng)), appeui: a, appkey: genKey(rng), relaxed: rng.Intn(2) == 0}
		d.nwk, d.app = randBytes(rng, 16), randBytes(rng, 16)
		d.addr = addr
		d.joined = true
		d.fup0 = []uint16{0, 1, 100}[rng.Intn(3)]
		d.fdn0 = []uint16{0, 7}[rng.Intn(2)]
		d.fcnt = d.fup0
		world.store.CreateDevice(mkDevice(d.eui, d.appeui, d.addr, d.appkey, d.nwk, d.app, d.fup0, d.fdn0, d.relaxed, model.PersonalizedDevice), d.appeui)
		d.registered = true
		h.devs = append(h.devs, d)
		pops = append(pops, fmt.Sprintf("%x:%x:%s:%s:%s:%x:%d:%d:%d:%d", uint64(d.eui.ToInt64()), d.addr, hx(d.appkey), hx(d.nwk), hx(d.app),
			uint64(d.appeui.ToInt64()), d.fup0, d.fdn0, b01(d.relaxed), int(model.PersonalizedDevice)))
	}
	if rng.Intn(2) == 0 {
		h.submit(h.devs[rng.Intn(2)], uint8(1+rng.Intn(200)), false, randBytes(rng, 1+rng.Intn(20)))
	}
	pre := append([]string{}, h.events...)
	f1 := h.validUplink(h.devs[0], true, false, h.devs[0].fcnt, 1+rng.Intn(200), randBytes(rng, rng.Intn(20)), nil)
	f2 := h.validUplink(h.devs[1], true, false, h.devs[1].fcnt, 1+rng.Intn(200), randBytes(rng, rng.Intn(20)), nil)
	// half of the cases: the two frames are received at the same instant (two gateways reporting at once), so that both
	// answers fall due together and reach the encoder back to back
	sameInstant := rng.Intn(2) == 0
	t0 := time.Now()
	mk := func(raw []byte, gw uint64) (server.GatewayPacket, string) {
		datr := datrs[rng.Intn(len(datrs))]
		rssi := int32(-rng.Intn(130))
		snr8 := rng.Intn(281) - 160
		ch := uint8(rng.Intn(8))
		clock := rng.Uint32()
		now := time.Now()
		if sameInstant {
			now = t0
		}
		ts := now.UnixNano() - 1600000000000000000
		return server.GatewayPacket{
			RawMessage: append([]byte{}, raw...),
			Radio:      server.RadioContext{Channel: ch, RFChain: 0, Frequency: 868.1, DataRate: datr, Band: eu868, RSSI: rssi, SNR: float32(snr8) / 8},
			Gateway:    server.GatewayContext{GatewayEUI: eui64(gw), GatewayHost: "127.0.0.1", GatewayPort: 1700, GatewayClock: clock, ProtocolVersion: 2},
			ReceivedAt: now,
		}, fmt.Sprintf("R,%s,%x,%d,%s,%d/%d,%d,%d,,0", hx(raw), gw, ts, datr, rssi, snr8, ch, clock)
	}
	p1, e1 := mk(f1, h.gws[0])
	p2, e2 := mk(f2, h.gws[1])
	world.inject(p1)
	if !sameInstant {
		time.Sleep(30 * time.Millisecond) // well inside the first uplink's window
	} else {
		w.Count("sched.window2.same-instant")
	}
	world.inject(p2)
	if !world.quiesce() {
		w.Case(suite, []string{"kind=window2", "pop=" + strings.Join(pops, ";")}, "HUNG")
		return
	}
	downs, _, _ := world.collect()
	var dl []string
	for _, x := range downs {
		dl = append(dl, dlStr(x))
	}
	sort.Strings(dl)
	w.Case(suite, []string{fmt.Sprintf("cfg=%d:0", opts.netID), fmt.Sprintf("apps=%x", uint64(a.ToInt64())), "pop=" + strings.Join(pops, ";"),
		"pre=" + strings.Join(pre, "|"), "f1=" + e1, "f2=" + e2, "kind=window2", "sched="}, "D["+strings.Join(dl, ";")+"] P[] "+h.dumpAll())
	w.Count("sched.window2")
}

// Two registry entries with the same DevAddr AND the same session keys (strict counters): on the air they are one device, and
// one uplink is reported twice at the same instant (the same report delivered twice, so that whichever handler wins the
// outcome is the same): the frame is recorded once for each entry, not twice.
func sharedKeyCopiesCase(rng *rand.Rand, w *Writer, suite string) {
	opts := worldOpts{netID: uint(rng.Intn(1 << 24)), rxDelay: 400 * time.Millisecond}
	world := newWorld(opts)
	defer world.close()
	h := &histRunner{w: world, rng: rng, tags: w.Stats, lastValid: map[int][]byte{}}
	h.gws = []uint64{genEUI(rng), genEUI(rng)}
	a := eui64(genEUI(rng))
	h.apps = []protocol.EUI{a}
	world.store.CreateApplication(model.Application{AppEUI: a})
	world.watchApp(a)
	addr := rng.Uint32()
	var pops []string
	for i := 0; i < 2; i++ {
		d := &simDev{eui: eui64(genEUI(rng)), appeui: a, appkey: genKey(rng), relaxed: false}
		d.nwk, d.app = randBytes(rng, 16), randBytes(rng, 16)
		if i > 0 {
			d.nwk, d.app = h.devs[0].nwk, h.devs[0].app
		}
		d.relaxed = false
		d.addr = addr
		d.joined = true
		d.fup0 = []uint16{0, 1, 100}[rng.Intn(3)]
		if i > 0 {
			d.fup0 = h.devs[0].fup0
		}
		d.fdn0 = []uint16{0, 7}[rng.Intn(2)]
		d.fcnt = d.fup0
		world.store.CreateDevice(mkDevice(d.eui, d.appeui, d.addr, d.appkey, d.nwk, d.app, d.fup0, d.fdn0, d.relaxed, model.PersonalizedDevice), d.appeui)
		d.registered = true
		h.devs = append(h.devs, d)
		pops = append(pops, fmt.Sprintf("%x:%x:%s:%s:%s:%x:%d:%d:%d:%d", uint64(d.eui.ToInt64()), d.addr, hx(d.appkey), hx(d.nwk), hx(d.app),
			uint64(d.appeui.ToInt64()), d.fup0, d.fdn0, b01(d.relaxed), int(model.PersonalizedDevice)))
	}
	if rng.Intn(2) == 0 {
		h.submit(h.devs[rng.Intn(2)], uint8(1+rng.Intn(200)), false, randBytes(rng, 1+rng.Intn(20)))
	}
	pre := append([]string{}, h.events...)
	f1 := h.validUplink(h.devs[0], true, false, h.devs[0].fcnt, 1+rng.Intn(200), randBytes(rng, rng.Intn(20)), nil)
	f2 := f1
	// half of the cases: the two frames are received at the same instant (two gateways reporting at once), so that both
	// answers fall due together and reach the encoder back to back
	sameInstant := true
	t0 := time.Now()
	mk := func(raw []byte, gw uint64) (server.GatewayPacket, string) {
		datr := datrs[rng.Intn(len(datrs))]
		rssi := int32(-rng.Intn(130))
		snr8 := rng.Intn(281) - 160
		ch := uint8(rng.Intn(8))
		clock := rng.Uint32()
		now := time.Now()
		if sameInstant {
			now = t0
		}
		ts := now.UnixNano() - 1600000000000000000
		return server.GatewayPacket{
			RawMessage: append([]byte{}, raw...),
			Radio:      server.RadioContext{Channel: ch, RFChain: 0, Frequency: 868.1, DataRate: datr, Band: eu868, RSSI: rssi, SNR: float32(snr8) / 8},
			Gateway:    server.GatewayContext{GatewayEUI: eui64(gw), GatewayHost: "127.0.0.1", GatewayPort: 1700, GatewayClock: clock, ProtocolVersion: 2},
			ReceivedAt: now,
		}, fmt.Sprintf("R,%s,%x,%d,%s,%d/%d,%d,%d,,0", hx(raw), gw, ts, datr, rssi, snr8, ch, clock)
	}
	p1, e1 := mk(f1, h.gws[0])
	p2, e2 := p1, e1
	_ = f2
	// forced order, operation by operation: one handler reads the rows, the other runs to its end, the first goes on with
	// what it read. The two reports differ in their receive time only (the inbox is keyed by device and time, so that a
	// second record would show); the model handles the winner's report first.
	p2.ReceivedAt = p1.ReceivedAt.Add(time.Millisecond)
	e2 = strings.Replace(e1, fmt.Sprintf(",%d,", p1.ReceivedAt.UnixNano()-1600000000000000000), fmt.Sprintf(",%d,", p2.ReceivedAt.UnixNano()-1600000000000000000), 1)
	sched := []int{1}
	for k := 0; k < 80; k++ {
		sched = append(sched, 0)
	}
	if rng.Intn(2) == 0 {
		sched = []int{0}
		for k := 0; k < 80; k++ {
			sched = append(sched, 1)
		}
		e1, e2 = e2, e1
	}
	if _, status := world.runSchedN([]server.GatewayPacket{p1, p2}, sched); status == "HUNG" {
		w.Case(suite, []string{"kind=window2", "pop=" + strings.Join(pops, ";")}, "HUNG")
		return
	}
	if !world.quiesce() {
		w.Case(suite, []string{"kind=window2", "pop=" + strings.Join(pops, ";")}, "HUNG")
		return
	}
	downs, _, _ := world.collect()
	var dl []string
	for _, x := range downs {
		dl = append(dl, dlStr(x))
	}
	sort.Strings(dl)
	w.Case(suite, []string{fmt.Sprintf("cfg=%d:0", opts.netID), fmt.Sprintf("apps=%x", uint64(a.ToInt64())), "pop=" + strings.Join(pops, ";"),
		"pre=" + strings.Join(pre, "|"), "f1=" + e1, "f2=" + e2, "sharedkey=1", "kind=window2", "sched="}, "D["+strings.Join(dl, ";")+"] P[] "+h.dumpAll())
	w.Count("sched.window2.shared-key-copies")
}

// Two devices that share a DevAddr, the second with TWO queued messages: both send an uplink inside one receive window, and
// when that has been answered the second device sends its next uplink. Each device is answered for each of its uplinks (the
// scheduler's slot is per device), and the second device gets its messages oldest first - one per uplink.
func sharedAddrQueueCase(rng *rand.Rand, w *Writer, suite string) {
	opts := worldOpts{netID: uint(rng.Intn(1 << 24)), rxDelay: 400 * time.Millisecond}
	world := newWorld(opts)
	defer world.close()
	h := &histRunner{w: world, rng: rng, tags: w.Stats, lastValid: map[int][]byte{}}
	h.gws = []uint64{genEUI(rng), genEUI(rng)}
	a := eui64(genEUI(rng))
	h.apps = []protocol.EUI{a}
	world.store.CreateApplication(model.Application{AppEUI: a})
	world.watchApp(a)
	addr := rng.Uint32()
	var pops []string
	for i := 0; i < 2; i++ {
		d := &simDev{eui: eui64(genEUI(rng)), appeui: a, appkey: genKey(rng), relaxed: rng.Intn(2) == 0}
		d.nwk, d.app = randBytes(rng, 16), randBytes(rng, 16)
		d.addr = addr
		d.joined = true
		d.fup0 = []uint16{0, 1, 100}[rng.Intn(3)]
		d.fdn0 = []uint16{0, 7}[rng.Intn(2)]
		d.fcnt = d.fup0
		world.store.CreateDevice(mkDevice(d.eui, d.appeui, d.addr, d.appkey, d.nwk, d.app, d.fup0, d.fdn0, d.relaxed, model.PersonalizedDevice), d.appeui)
		d.registered = true
		h.devs = append(h.devs, d)
		pops = append(pops, fmt.Sprintf("%x:%x:%s:%s:%s:%x:%d:%d:%d:%d", uint64(d.eui.ToInt64()), d.addr, hx(d.appkey), hx(d.nwk), hx(d.app),
			uint64(d.appeui.ToInt64()), d.fup0, d.fdn0, b01(d.relaxed), int(model.PersonalizedDevice)))
	}
	h.submit(h.devs[1], uint8(1+rng.Intn(200)), false, randBytes(rng, 1+rng.Intn(20)))
	h.submit(h.devs[1], uint8(1+rng.Intn(200)), false, randBytes(rng, 1+rng.Intn(20)))
	if rng.Intn(2) == 0 {
		h.submit(h.devs[0], uint8(1+rng.Intn(200)), false, randBytes(rng, 1+rng.Intn(20)))
	}
	pre := append([]string{}, h.events...)
	f1 := h.validUplink(h.devs[0], true, false, h.devs[0].fcnt, 1+rng.Intn(200), randBytes(rng, rng.Intn(20)), nil)
	f2 := h.validUplink(h.devs[1], true, false, h.devs[1].fcnt, 1+rng.Intn(200), randBytes(rng, rng.Intn(20)), nil)
	f3 := h.validUplink(h.devs[1], false, false, h.devs[1].fcnt+1, 1+rng.Intn(200), randBytes(rng, rng.Intn(20)), nil)
	// half of the cases: the two frames are received at the same instant (two gateways reporting at once), so that both
	// answers fall due together and reach the encoder back to back
	sameInstant := false
	t0 := time.Now()
	mk := func(raw []byte, gw uint64) (server.GatewayPacket, string) {
		datr := datrs[rng.Intn(len(datrs))]
		rssi := int32(-rng.Intn(130))
		snr8 := rng.Intn(281) - 160
		ch := uint8(rng.Intn(8))
		clock := rng.Uint32()
		now := time.Now()
		if sameInstant {
			now = t0
		}
		ts := now.UnixNano() - 1600000000000000000
		return server.GatewayPacket{
			RawMessage: append([]byte{}, raw...),
			Radio:      server.RadioContext{Channel: ch, RFChain: 0, Frequency: 868.1, DataRate: datr, Band: eu868, RSSI: rssi, SNR: float32(snr8) / 8},
			Gateway:    server.GatewayContext{GatewayEUI: eui64(gw), GatewayHost: "127.0.0.1", GatewayPort: 1700, GatewayClock: clock, ProtocolVersion: 2},
			ReceivedAt: now,
		}, fmt.Sprintf("R,%s,%x,%d,%s,%d/%d,%d,%d,,0", hx(raw), gw, ts, datr, rssi, snr8, ch, clock)
	}
	p1, e1 := mk(f1, h.gws[0])
	p2, e2 := mk(f2, h.gws[1])
	world.inject(p1)
	if !sameInstant {
		time.Sleep(30 * time.Millisecond) // well inside the first uplink's window
	} else {
		w.Count("sched.window2.same-instant")
	}
	world.inject(p2)
	if !world.quiesce() {
		w.Case(suite, []string{"kind=window2", "pop=" + strings.Join(pops, ";")}, "HUNG")
		return
	}
	p3, e3 := mk(f3, h.gws[0])
	world.inject(p3)
	if !world.quiesce() {
		w.Case(suite, []string{"kind=window2", "pop=" + strings.Join(pops, ";")}, "HUNG")
		return
	}
	downs, _, _ := world.collect()
	var dl []string
	for _, x := range downs {
		dl = append(dl, dlStr(x))
	}
	sort.Strings(dl)
	w.Case(suite, []string{fmt.Sprintf("cfg=%d:0", opts.netID), fmt.Sprintf("apps=%x", uint64(a.ToInt64())), "pop=" + strings.Join(pops, ";"),
		"pre=" + strings.Join(pre, "|"), "f1=" + e1, "f2=" + e2, "f3=" + e3, "nf=3", "queue=1", "kind=window2", "sched="}, "D["+strings.Join(dl, ";")+"] P[] "+h.dumpAll())
	w.Count("sched.window2.shared-address-queue")
}

// The same with five devices (own addresses) whose confirmed uplinks are all received at the same instant - five gateways
// reporting at once: the five answers fall due together and reach the encoder back to back. Each device is answered once, with
// the ACK flag, under its own keys (frames of different devices commute: the model handles them one after the other).
func burstCase(rng *rand.Rand, w *Writer, suite string) {
	const ndev = 5
	opts := worldOpts{netID: uint(rng.Intn(1 << 24)), rxDelay: 200 * time.Millisecond}
	world := newWorld(opts)
	defer world.close()
	h := &histRunner{w: world, rng: rng, tags: w.Stats, lastValid: map[int][]byte{}}
	h.gws = []uint64{genEUI(rng), genEUI(rng)}
	a := eui64(genEUI(rng))
	h.apps = []protocol.EUI{a}
	world.store.CreateApplication(model.Application{AppEUI: a})
	world.watchApp(a)
	addr0 := rng.Uint32() &^ 7
	var pops []string
	for i := 0; i < ndev; i++ {
		addr := addr0 + uint32(i)
		d := &simDev{eui: eui64(genEUI(rng)), appeui: a, appkey: genKey(rng), relaxed: rng.Intn(2) == 0}
		d.nwk, d.app = randBytes(rng, 16), randBytes(rng, 16)
		d.addr = addr
		d.joined = true
		d.fup0 = []uint16{0, 1, 100}[rng.Intn(3)]
		d.fdn0 = []uint16{0, 7}[rng.Intn(2)]
		d.fcnt = d.fup0
		world.store.CreateDevice(mkDevice(d.eui, d.appeui, d.addr, d.appkey, d.nwk, d.app, d.fup0, d.fdn0, d.relaxed, model.PersonalizedDevice), d.appeui)
		d.registered = true
		h.devs = append(h.devs, d)
		pops = append(pops, fmt.Sprintf("%x:%x:%s:%s:%s:%x:%d:%d:%d:%d", uint64(d.eui.ToInt64()), d.addr, hx(d.appkey), hx(d.nwk), hx(d.app),
			uint64(d.appeui.ToInt64()), d.fup0, d.fdn0, b01(d.relaxed), int(model.PersonalizedDevice)))
	}
	if rng.Intn(2) == 0 {
		h.submit(h.devs[rng.Intn(ndev)], uint8(1+rng.Intn(200)), false, randBytes(rng, 1+rng.Intn(20)))
	}
	pre := append([]string{}, h.events...)
	var fs [][]byte
	for i := 0; i < ndev; i++ {
		fs = append(fs, h.validUplink(h.devs[i], true, false, h.devs[i].fcnt, 1+rng.Intn(200), randBytes(rng, rng.Intn(20)), nil))
	}
	// half of the cases: the two frames are received at the same instant (two gateways reporting at once), so that both
	// answers fall due together and reach the encoder back to back
	sameInstant := true
	t0 := time.Now()
	mk := func(raw []byte, gw uint64) (server.GatewayPacket, string) {
		datr := datrs[rng.Intn(len(datrs))]
		rssi := int32(-rng.Intn(130))
		snr8 := rng.Intn(281) - 160
		ch := uint8(rng.Intn(8))
		clock := rng.Uint32()
		now := time.Now()
		if sameInstant {
			now = t0
		}
		ts := now.UnixNano() - 1600000000000000000
		return server.GatewayPacket{
			RawMessage: append([]byte{}, raw...),
			Radio:      server.RadioContext{Channel: ch, RFChain: 0, Frequency: 868.1, DataRate: datr, Band: eu868, RSSI: rssi, SNR: float32(snr8) / 8},
			Gateway:    server.GatewayContext{GatewayEUI: eui64(gw), GatewayHost: "127.0.0.1", GatewayPort: 1700, GatewayClock: clock, ProtocolVersion: 2},
			ReceivedAt: now,
		}, fmt.Sprintf("R,%s,%x,%d,%s,%d/%d,%d,%d,,0", hx(raw), gw, ts, datr, rssi, snr8, ch, clock)
	}
	var ps []server.GatewayPacket
	var es []string
	for i, f := range fs {
		p, e := mk(f, h.gws[i%2])
		ps = append(ps, p)
		es = append(es, fmt.Sprintf("f%d=%s", i+1, e))
	}
	for _, p := range ps {
		world.inject(p)
	}
	if !world.quiesce() {
		w.Case(suite, []string{"kind=window2", "pop=" + strings.Join(pops, ";")}, "HUNG")
		return
	}
	downs, pubs, _ := world.collect()
	var dl []string
	for _, x := range downs {
		dl = append(dl, dlStr(x))
	}
	sort.Strings(dl)
	// what the application was sent, read only now that all five frames have been handled (a subscriber that is a little
	// slow): five events, each with its own device, payload and gateway
	var pl []string
	for _, p := range pubs {
		pl = append(pl, fmt.Sprintf("%x:%x:%s:%x", uint64(p.Application.AppEUI.ToInt64()), uint64(p.Device.DeviceEUI.ToInt64()), hx(p.Payload),
			uint64(p.FrameContext.GatewayContext.Gateway.GatewayEUI.ToInt64())))
	}
	sort.Strings(pl)
	w.Case(suite, []string{fmt.Sprintf("cfg=%d:0", opts.netID), fmt.Sprintf("apps=%x", uint64(a.ToInt64())), "pop=" + strings.Join(pops, ";"),
		"pre=" + strings.Join(pre, "|"), strings.Join(es, " "), fmt.Sprintf("nf=%d", ndev), "pubs=1", "kind=window2", "sched="}, "D["+strings.Join(dl, ";")+"] P["+strings.Join(pl, ";")+"] "+h.dumpAll())
	w.Count("sched.window2.burst-of-five")
}
