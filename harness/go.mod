module verifharness

go 1.21

require (
	github.com/lab5e/lospan v0.0.0
	google.golang.org/grpc v1.63.2
)

require (
	github.com/google/uuid v1.6.0 // indirect
	github.com/mattn/go-isatty v0.0.20 // indirect
	github.com/remyoudompheng/bigfft v0.0.0-20200410134404-eec4a21b6bb0 // indirect
	golang.org/x/net v0.24.0 // indirect
	golang.org/x/sys v0.19.0 // indirect
	golang.org/x/text v0.14.0 // indirect
	google.golang.org/genproto/googleapis/rpc v0.0.0-20240415180920-8c6c420018be // indirect
	google.golang.org/protobuf v1.33.0 // indirect
	modernc.org/libc v1.21.5 // indirect
	modernc.org/mathutil v1.5.0 // indirect
	modernc.org/memory v1.4.0 // indirect
	modernc.org/sqlite v1.20.0 // indirect
)

replace github.com/lab5e/lospan => /repo
