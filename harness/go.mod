module verifharness

go 1.21

require github.com/lab5e/lospan v0.0.0

replace github.com/lab5e/lospan => /repo
