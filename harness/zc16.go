//go:build verif && !no_c18

package main

import "math/rand"

// C16 speaks of gateways "after any register / update / delete history": which gateways are registered, at which address
// and with the strict-IP switch on or off, is what the registry holds after such a history - through the storage layer and
// through the service (where an update may leave fields out, which then keep their stored values). The forwarder consults
// that registry on every datagram, so C16's check runs registry histories (the ones of C18, judged by the same abstract
// registry) beside the datagram histories.
func init() {
	gw16 := suites["C16"]
	suites["C16"] = func(rng *rand.Rand, tier string, w *Writer) {
		gw16(rng, tier, w)
		n := 60
		if tier == "thorough" {
			n = 600
		}
		for i := 0; i < n; i++ {
			registryCase(rng, w, 20+rng.Intn(60))
		}
	}
}
