package main

import (
	"crypto/aes"
	"encoding/binary"
	"fmt"
	"math/rand"
	"os"
	"sort"
	"strings"
	"time"

	"context"
	"github.com/lab5e/lospan/pkg/model"
	"github.com/lab5e/lospan/pkg/pb/lospan"
	"github.com/lab5e/lospan/pkg/protocol"
	"github.com/lab5e/lospan/pkg/server"
)

// the harness's own view of one end device (a reference device, not the library)
type simDev struct {
	eui, appeui protocol.EUI
	appkey      []byte
	nwk, app    []byte
	addr        uint32
	fcnt        uint16 // next uplink counter the device will use
	relaxed     bool
	otaa        bool
	joined      bool
	usedNonces  []uint16
	lastNonce   uint16
	fup0, fdn0  uint16
	nextCreated int64
	registered  bool
	zeroKey     bool
	snapshot    *model.Device // the row as an operator's tool read it some events ago
	formerAddr  *uint32       // the address before the operator re-addressed the device
	formerKey   []byte        // the AppKey before the operator replaced it
}

type histProfile struct {
	name                                       string
	wUplink, wCorrupt, wJoin, wSubmit, wReplay int
	wCrash                                     int // frames whose handling is cut short / hit by failing operations, then redelivered
	maxDevs, minEv, maxEv                      int
	shareAddr                                  int // 1 in n histories has devices sharing an address
	confirmedOnly                              bool
	nonceOff                                   int  // 1 in n histories disables the nonce check
	oddPorts                                   int  // 1 in n submissions (through the storage layer) names a port no frame can carry
	badDatr                                    bool // gateways sometimes report an unknown data-rate string
	maxSubmit                                  int  // largest queued payload (0: up to 230, beyond some data rates' limit)
	noRestart                                  bool // one server for the whole history
	sameTs                                     bool // receptions with identical receive time (the inbox key): the later one is refused by the store
	staleWrites                                int  // 1 in n events: a row read earlier is written back (C05: the nonce record must survive it)
	wUpdate                                    int  // 1 in n events is preceded by an operator's change of the device (new address, or new AppKey) through the storage layer
}

// a downlink as the pipeline hands it to the gateway interface: the frame, the RX1 delay, the gateway and its clock, and the
// radio parameters (data rate, channel, RF chain, and whether the frequency is the uplink's - the histories use one frequency)
func dlStr(d server.GatewayPacket) string {
	return fmt.Sprintf("%s:%d:%x:%d:%s:%d:%d:%d", hx(d.RawMessage), d.Radio.RX1Delay, uint64(d.Gateway.GatewayEUI.ToInt64()), d.Gateway.GatewayClock,
		d.Radio.DataRate, d.Radio.Channel, d.Radio.RFChain, b01(d.Radio.Frequency == 868.1))
}

var datrs = []string{"SF12BW125", "SF11BW125", "SF10BW125", "SF9BW125", "SF8BW125", "SF7BW125", "SF7BW250", "FSKBW500"}

func eui64(v uint64) protocol.EUI { return protocol.EUIFromInt64(int64(v)) }

func genEUI(rng *rand.Rand) uint64 {
	switch rng.Intn(6) {
	case 0:
		return rng.Uint64() | 0x8000000000000000
	case 1:
		return rng.Uint64() & 0x00ff00ff00ff00ff
	default:
		return rng.Uint64()
	}
}

type histRunner struct {
	w          *World
	rng        *rand.Rand
	devs       []*simDev
	apps       []protocol.EUI
	events     []string
	obs        []string
	ts         int64
	gws        []uint64
	tags       map[string]int
	badDatr    bool
	badDatrNow bool // for this frame only (a device with nothing queued: the answer is an empty frame, no payload limit is looked up)
	sameTs     bool
	hung       bool
	lastValid  map[int][]byte
}

func (h *histRunner) dumpAll() string {
	var parts []string
	euis := make([]protocol.EUI, 0)
	for _, d := range h.devs {
		if d.registered {
			euis = append(euis, d.eui)
		}
	}
	sort.Slice(euis, func(i, j int) bool { return uint64(euis[i].ToInt64()) < uint64(euis[j].ToInt64()) })
	for _, e := range euis {
		parts = append(parts, h.w.dumpDevice(e), h.w.dumpOutbox(e), h.w.dumpInbox(e))
	}
	fb := h.w.fob.VerifDump()
	return strings.Join(parts, " ; ") + " ; fb{" + strings.Join(fb, ",") + "}"
}

// run one rx event on the real pipeline and record event + observation
func (h *histRunner) rx(raw []byte, tag string) {
	if h.ts == 0 || !h.sameTs || h.rng.Intn(12) != 0 { // (C09 profile) now and then two receptions carry the same receive time: the second cannot be stored
		h.ts += 1000
	}
	gw := h.gws[h.rng.Intn(len(h.gws))]
	datr := datrs[h.rng.Intn(len(datrs))]
	if (h.badDatr || h.badDatrNow) && h.rng.Intn(25) == 0 && !(len(raw) > 0 && raw[0]>>5 == 0) {
		// an unknown data-rate string (never on a join-request: with payload left in the buffer the accept
		// cannot be built and the join is honoured silently - outside the quantifiers, see DESIGN 10.5)
		datr = "SF6BW999"
	}
	rssi := int32(-h.rng.Intn(130))
	snr8 := h.rng.Intn(281) - 160 // -20 dB .. +15 dB in eighths
	ch := uint8(h.rng.Intn(8))
	clock := h.rng.Uint32()
	pkt := server.GatewayPacket{
		RawMessage: append([]byte{}, raw...),
		Radio:      server.RadioContext{Channel: ch, RFChain: 0, Frequency: 868.1, DataRate: datr, Band: eu868, RSSI: rssi, SNR: float32(snr8) / 8},
		Gateway:    server.GatewayContext{GatewayEUI: eui64(gw), GatewayHost: "127.0.0.1", GatewayPort: 1700, GatewayClock: clock, ProtocolVersion: 2},
		ReceivedAt: time.Unix(0, 1600000000000000000+h.ts),
	}
	if !h.w.inject(pkt) || !h.w.quiesce() {
		h.obs = append(h.obs, "HUNG")
		h.events = append(h.events, fmt.Sprintf("R,%s,%x,%d,%s,%d/%d,%d,%d,,0", hx(raw), gw, h.ts, datr, rssi, snr8, ch, clock))
		h.hung = true
		return
	}
	downs, pubs, _ := h.w.collect()
	appnonce, newaddr := "", uint32(0)
	var dl []string
	for _, d := range downs {
		dl = append(dl, dlStr(d))
		if len(d.RawMessage) == 17 && d.RawMessage[0]>>5 == 1 && len(raw) >= 19 {
			// recover the random AppNonce / fresh address the server chose (inputs of the model)
			var de protocol.EUI
			for i := 0; i < 8; i++ {
				de.Octets[i] = raw[16-i]
			}
			for _, sd := range h.devs {
				if sd.eui == de {
					dec := aesEnc(sd.appkey, d.RawMessage[1:])
					appnonce = hx(dec[0:3])
					newaddr = binary.LittleEndian.Uint32(dec[6:10])
					// the reference device processes the accept
					if ok, a, _, _, nk, ak := refOnJoinAccept(sd.appkey, sd.lastNonce, d.RawMessage); ok {
						sd.addr, sd.nwk, sd.app, sd.fcnt, sd.joined = a, nk, ak, 0, true
					}
				}
			}
		}
	}
	if appnonce == "" && len(raw) == 23 && raw[0]>>5 == 0 {
		// a join that was honoured without an accept leaving: read the nonce back from the stored keys
		var de protocol.EUI
		for i := 0; i < 8; i++ {
			de.Octets[i] = raw[16-i]
		}
		for _, sd := range h.devs {
			if sd.eui == de && sd.registered {
				appnonce, newaddr = h.recoverAppNonce(sd)
			}
		}
	}
	sort.Strings(dl)
	var pl []string
	for _, p := range pubs {
		pl = append(pl, fmt.Sprintf("%x:%x:%s:%x", uint64(p.Application.AppEUI.ToInt64()), uint64(p.Device.DeviceEUI.ToInt64()), hx(p.Payload),
			uint64(p.FrameContext.GatewayContext.Gateway.GatewayEUI.ToInt64())))
	}
	sort.Strings(pl)
	h.events = append(h.events, fmt.Sprintf("R,%s,%x,%d,%s,%d/%d,%d,%d,%s,%x", hx(raw), gw, h.ts, datr, rssi, snr8, ch, clock, appnonce, newaddr))
	h.obs = append(h.obs, "D["+strings.Join(dl, ";")+"] P["+strings.Join(pl, ";")+"] "+h.dumpAll())
	h.tags[tag]++
}

// one rx event cut short: the handlers run operation by operation; operation number crashAt is
// never executed (the process dies there and a fresh server reopens the database); operations in
// fails return an injected error. crashAt < 0: no crash, failures only.
func (h *histRunner) rxCrash(raw []byte, crashAt int, fails []int, tag string) {
	h.ts += 1000
	gw := h.gws[h.rng.Intn(len(h.gws))]
	datr := datrs[h.rng.Intn(len(datrs))]
	rssi := int32(-h.rng.Intn(130))
	snr8 := h.rng.Intn(281) - 160 // -20 dB .. +15 dB in eighths
	ch := uint8(h.rng.Intn(8))
	clock := h.rng.Uint32()
	pkt := server.GatewayPacket{
		RawMessage: append([]byte{}, raw...),
		Radio:      server.RadioContext{Channel: ch, RFChain: 0, Frequency: 868.1, DataRate: datr, Band: eu868, RSSI: rssi, SNR: float32(snr8) / 8},
		Gateway:    server.GatewayContext{GatewayEUI: eui64(gw), GatewayHost: "127.0.0.1", GatewayPort: 1700, GatewayClock: clock, ProtocolVersion: 2},
		ReceivedAt: time.Unix(0, 1600000000000000000+h.ts),
	}
	fm := map[int]bool{}
	var fs []string
	for _, i := range fails {
		fm[i] = true
		fs = append(fs, fmt.Sprint(i))
	}
	trace, status := h.w.runStepped(pkt, crashAt, fm)
	if status == "HUNG" {
		h.obs = append(h.obs, "HUNG")
		h.events = append(h.events, fmt.Sprintf("X,%s,%x,%d,%s,%d/%d,%d,%d,,0,%d,%s", hx(raw), gw, h.ts, datr, rssi, snr8, ch, clock, crashAt, strings.Join(fs, "+")))
		return
	}
	if crashAt < 0 {
		h.w.quiesce()
	} else {
		time.Sleep(3 * time.Millisecond) // let what was already handed on settle before the process "dies"
	}
	downs, _, _ := h.w.collect()
	appnonce, newaddr := "", uint32(0)
	var dl []string
	for _, d := range downs {
		dl = append(dl, dlStr(d))
	}
	// the random AppNonce / fresh address the join handler chose: from the emitted accept if there is one,
	// otherwise from the stored session (keys are derived from it; the model needs it as input)
	if raw[0]>>5 == 0 && len(raw) == 23 {
		var de protocol.EUI
		for i := 0; i < 8; i++ {
			de.Octets[i] = raw[16-i]
		}
		for _, sd := range h.devs {
			if sd.eui != de {
				continue
			}
			for _, d := range downs {
				if len(d.RawMessage) == 17 && d.RawMessage[0]>>5 == 1 {
					dec := aesEnc(sd.appkey, d.RawMessage[1:])
					appnonce = hx(dec[0:3])
					newaddr = binary.LittleEndian.Uint32(dec[6:10])
					if ok, a, _, _, nk, ak := refOnJoinAccept(sd.appkey, sd.lastNonce, d.RawMessage); ok {
						sd.addr, sd.nwk, sd.app, sd.fcnt, sd.joined = a, nk, ak, 0, true
					}
				}
			}
			if appnonce == "" {
				appnonce, newaddr = h.recoverAppNonce(sd)
			}
		}
	}
	sort.Strings(dl)
	if crashAt >= 0 {
		h.w.restart()
		for _, a := range h.apps {
			h.w.watchApp(a)
		}
	}
	h.events = append(h.events, fmt.Sprintf("X,%s,%x,%d,%s,%d/%d,%d,%d,%s,%x,%d,%s", hx(raw), gw, h.ts, datr, rssi, snr8, ch, clock, appnonce, newaddr, crashAt, strings.Join(fs, "+")))
	h.obs = append(h.obs, "D["+strings.Join(dl, ";")+"] P[] "+h.dumpAll()+" ; trace{"+strings.Join(trace, ",")+"}")
	h.tags[tag]++
}

// the AppNonce the join handler drew, recovered from the session keys it stored (search over the
// 2^24 values is too slow; the handler stores keys only after UpdateDevice, so try the stored row)
func (h *histRunner) recoverAppNonce(sd *simDev) (string, uint32) {
	dev, err := h.w.store.GetDeviceByEUI(sd.eui)
	if err != nil {
		return "", 0
	}
	if dev.NwkSKey.Empty() || string(dev.NwkSKey.Key[:]) == string(sd.nwk) {
		return "", dev.DevAddr.ToUint32()
	}
	// NwkSKey = aes(appkey, 01 | appnonce | netid | devnonce | pad): decrypt to read the nonce back
	blk, _ := aes.NewCipher(sd.appkey)
	out := make([]byte, 16)
	blk.Decrypt(out, dev.NwkSKey.Key[:])
	return hx(out[1:4]), dev.DevAddr.ToUint32()
}

// the server process is replaced: a fresh server opens the same database file (the output buffer is gone)
func (h *histRunner) restartServer() {
	h.w.restart()
	for _, a := range h.apps {
		h.w.watchApp(a)
	}
	h.events = append(h.events, "Z")
	h.obs = append(h.obs, "Z "+h.dumpAll())
	h.tags["restart"]++
}

// the operator changes the device while the server runs, through the service object (UpdateDevice): a new address (the
// device is re-personalised), a new AppKey (re-provisioned), or the current session key written back unchanged
func (h *histRunner) updateDevice(d *simDev) {
	if !d.registered {
		return
	}
	eui := d.eui.String()
	req := &lospan.Device{Eui: &eui}
	switch k := h.rng.Intn(3); {
	case k == 0 && d.joined && !d.zeroKey:
		na := h.rng.Uint32() & 0x01ffffff
		if na == d.addr || na == 0 {
			na = d.addr ^ 0x55
		}
		old := d.addr
		d.formerAddr = &old
		d.addr = na
		req.DevAddr = &na
		h.tags["update.address"]++
	case k == 1 && d.joined && !d.zeroKey:
		// the current network session key sent again (what an operator's tool does when it writes a device back)
		cur, err := h.w.store.GetDeviceByEUI(d.eui)
		if err != nil {
			return
		}
		req.NetworkSessionKey = append([]byte{}, cur.NwkSKey.Key[:]...)
		h.tags["update.same-session-key"]++
	default:
		d.formerKey = d.appkey
		d.appkey = genKey(h.rng)
		req.AppKey = append([]byte{}, d.appkey...)
		h.tags["update.appkey"]++
	}
	_, err := h.w.service().UpdateDevice(context.Background(), req)
	h.events = append(h.events, fmt.Sprintf("U,%x,%x,%s", uint64(d.eui.ToInt64()), d.addr, hx(d.appkey)))
	h.obs = append(h.obs, fmt.Sprintf("U%d %s", b01(err == nil), h.dumpAll()))
}

// many joins of one device, then the early nonces again (oldest first), with a restart somewhere
func (h *histRunner) joinMarathon(d *simDev) {
	n := 17 + h.rng.Intn(12)
	base := uint16(h.rng.Intn(60000))
	restartAt := h.rng.Intn(n + 4)
	for i := 0; i < n; i++ {
		if i == restartAt {
			h.restartServer()
		}
		nonce := base + uint16(i)
		d.lastNonce = nonce
		d.usedNonces = append(d.usedNonces, nonce)
		h.rx(refJoinRequest(d.appkey, d.appeui, d.eui, nonce), "join.marathon")
	}
	for i := 0; i < 3; i++ {
		if n+i == restartAt {
			h.restartServer()
		}
		nonce := base + uint16(i)
		d.lastNonce = nonce
		h.rx(refJoinRequest(d.appkey, d.appeui, d.eui, nonce), "join.marathon-replay")
	}
}

func (h *histRunner) submit(d *simDev, port uint8, ack bool, data []byte) {
	d.nextCreated += 10
	m := model.DownstreamMessage{DeviceEUI: d.eui, Data: hx(data), Port: port, Ack: ack, CreatedTime: d.nextCreated}
	err := h.w.store.CreateDownstreamMessage(d.eui, m)
	h.events = append(h.events, fmt.Sprintf("S,%x,%d,%d,%d,%s", uint64(d.eui.ToInt64()), d.nextCreated, port, b01(ack), hx(data)))
	h.obs = append(h.obs, fmt.Sprintf("S%d %s", b01(err == nil), h.dumpAll()))
	h.tags["submit"]++
}

func (h *histRunner) validUplink(d *simDev, confirmed bool, ackFlag bool, fcnt uint16, port int, payload []byte, fopts []byte) []byte {
	mt := byte(2)
	if confirmed {
		mt = 4
	}
	hi := byte(h.rng.Intn(16)) &^ 2
	if ackFlag {
		hi |= 2
	}
	return refUplink(d.nwk, d.app, mt, d.addr, fcnt, hi, fopts, port, payload)
}

func corrupt(rng *rand.Rand, f []byte) ([]byte, string) {
	g := append([]byte{}, f...)
	switch rng.Intn(8) {
	case 7:
		g[0] ^= byte(1+rng.Intn(7)) << 2 // RFU bits of the MHDR
		return g, "corrupt.mhdr-rfu"
	case 0, 1:
		bit := rng.Intn(len(g) * 8)
		g[bit/8] ^= 1 << uint(bit%8)
		return g, "corrupt.bitflip"
	case 2:
		return g[:rng.Intn(len(g))], "corrupt.truncate"
	case 3:
		return append(g, randBytes(rng, 1+rng.Intn(16))...), "corrupt.extend"
	case 4:
		g[0] = byte(rng.Intn(8))<<5 | g[0]&0x1f
		return g, "corrupt.mtype"
	case 5:
		for i := 0; i < 1+rng.Intn(4); i++ {
			g[rng.Intn(len(g))] ^= byte(1 + rng.Intn(255))
		}
		return g, "corrupt.mask"
	default:
		g[0] |= byte(1 + rng.Intn(3))
		return g, "corrupt.major"
	}
}

func runHistory(rng *rand.Rand, prof histProfile, w *Writer, suite string) {
	if os.Getenv("VERIF_EXPLORE") != "" { // exploratory runs: everything the profiles leave out
		prof.badDatr, prof.maxSubmit, prof.wJoin, prof.wReplay, prof.wCorrupt = true, 0, prof.wJoin+2, prof.wReplay+1, prof.wCorrupt+1
	}
	opts := worldOpts{netID: uint(rng.Intn(1 << 24))}
	if prof.nonceOff > 0 && rng.Intn(prof.nonceOff) == 0 {
		opts.disableNonceCheck = true
	}
	world := newWorld(opts)
	defer world.close()
	h := &histRunner{w: world, rng: rng, tags: w.Stats, lastValid: map[int][]byte{}, badDatr: prof.badDatr, sameTs: prof.sameTs}
	h.gws = []uint64{genEUI(rng), genEUI(rng)}
	napps := 1 + rng.Intn(2)
	for i := 0; i < napps; i++ {
		a := eui64(genEUI(rng))
		h.apps = append(h.apps, a)
		world.store.CreateApplication(model.Application{AppEUI: a})
		world.watchApp(a)
	}
	ndev := 1 + rng.Intn(prof.maxDevs)
	share := prof.shareAddr > 0 && rng.Intn(prof.shareAddr) == 0
	var pop []string
	for i := 0; i < ndev; i++ {
		d := &simDev{eui: eui64(genEUI(rng)), appeui: h.apps[rng.Intn(len(h.apps))], appkey: genKey(rng), relaxed: rng.Intn(4) == 0}
		kind := rng.Intn(3)
		if rng.Intn(8) == 0 {
			kind = 3
		}
		state := model.PersonalizedDevice
		switch kind {
		case 0: // ABP
			d.nwk, d.app = randBytes(rng, 16), randBytes(rng, 16)
			d.addr = rng.Uint32()
			if rng.Intn(3) == 0 {
				d.addr |= 0x80000000
			}
			d.joined = true
			d.fup0 = []uint16{0, 0, 1, 100, 65530, 65534}[rng.Intn(6)]
			d.fdn0 = []uint16{0, 0, 7, 65534, 65535}[rng.Intn(5)]
			d.fcnt = d.fup0
		case 1: // OTAA, not yet joined: no address, empty session keys
			d.otaa = true
			d.nwk, d.app = make([]byte, 16), make([]byte, 16)
			state = model.OverTheAirDevice
		case 3: // a row without session keys that is not an un-joined OTAA device (disabled, or ABP provisioned with zero keys)
			d.nwk, d.app = make([]byte, 16), make([]byte, 16)
			if rng.Intn(2) == 0 {
				d.addr = rng.Uint32() & 0x01ffffff
			}
			state = []model.DeviceState{model.DisabledDevice, model.PersonalizedDevice}[rng.Intn(2)]
			d.zeroKey = true
		default: // OTAA that joined earlier (keys present, address assigned)
			d.otaa = true
			d.nwk, d.app = randBytes(rng, 16), randBytes(rng, 16)
			d.addr = rng.Uint32() & 0x01ffffff
			d.joined = true
			state = model.OverTheAirDevice
		}
		if share && i > 0 && d.joined {
			o := h.devs[rng.Intn(i)] // any earlier device, also one that has no session yet (address 0, empty keys)
			d.addr = o.addr
			if o.joined && rng.Intn(2) == 0 {
				d.nwk = o.nwk // same key: both verify
			}
		}
		md := mkDevice(d.eui, d.appeui, d.addr, d.appkey, d.nwk, d.app, d.fup0, d.fdn0, d.relaxed, state)
		if err := world.store.CreateDevice(md, d.appeui); err == nil {
			d.registered = true
		}
		h.devs = append(h.devs, d)
		pop = append(pop, fmt.Sprintf("%x:%x:%s:%s:%s:%x:%d:%d:%d:%d", uint64(d.eui.ToInt64()), d.addr, hx(d.appkey), hx(d.nwk), hx(d.app),
			uint64(d.appeui.ToInt64()), d.fup0, d.fdn0, b01(d.relaxed), int(state)))
	}
	var apps []string
	for _, a := range h.apps {
		apps = append(apps, fmt.Sprintf("%x", uint64(a.ToInt64())))
	}
	h.events = append(h.events, "I")
	h.obs = append(h.obs, "I "+h.dumpAll())
	if prof.name == "C05" && rng.Intn(8) == 0 {
		for _, d := range h.devs {
			if d.otaa && d.registered {
				h.joinMarathon(d)
				break
			}
		}
	}
	nev := prof.minEv + rng.Intn(prof.maxEv-prof.minEv+1)
	total := prof.wUplink + prof.wCorrupt + prof.wJoin + prof.wSubmit + prof.wReplay + prof.wCrash
	for e := 0; e < nev && !h.hung; e++ {
		if !prof.noRestart && rng.Intn(40) == 0 {
			h.restartServer()
		}
		di := rng.Intn(len(h.devs))
		d := h.devs[di]
		if prof.wUpdate > 0 && rng.Intn(prof.wUpdate) == 0 {
			h.updateDevice(d)
		}
		h.badDatrNow = prof.name == "C09" && d.nextCreated == 0
		if prof.staleWrites > 0 && d.registered && rng.Intn(prof.staleWrites) == 0 {
			// an operator's tool that read the row some events ago writes it back now (storage layer): the row returns to
			// what was read - and nothing else changes, in particular not the record of DevNonces already honoured
			if d.snapshot == nil {
				if cur, err := h.w.store.GetDeviceByEUI(d.eui); err == nil {
					d.snapshot = &cur
				}
			} else {
				sn := *d.snapshot
				d.snapshot = nil
				err := h.w.store.UpdateDevice(sn)
				h.events = append(h.events, fmt.Sprintf("UF,%x:%x:%s:%s:%s:%x:%d:%d:%d:%d,%d", uint64(sn.DeviceEUI.ToInt64()), sn.DevAddr.ToUint32(),
					keyHex(sn.AppKey), keyHex(sn.NwkSKey), keyHex(sn.AppSKey), uint64(sn.AppEUI.ToInt64()), sn.FCntUp, sn.FCntDn, b01(sn.RelaxedCounter), int(sn.State), b01(sn.KeyWarning)))
				h.obs = append(h.obs, fmt.Sprintf("U%d %s", b01(err == nil), h.dumpAll()))
				h.tags["update.stale-write-back"]++
				// the harness's own picture of the device follows the row (keys, address), so that what it sends next is
				// meaningful traffic for the row as it now is
				d.appkey = append([]byte{}, sn.AppKey.Key[:]...)
				d.nwk = append([]byte{}, sn.NwkSKey.Key[:]...)
				d.app = append([]byte{}, sn.AppSKey.Key[:]...)
				d.addr = sn.DevAddr.ToUint32()
				d.formerKey, d.formerAddr = nil, nil
			}
		}
		if d.formerAddr != nil && rng.Intn(4) == 0 {
			// a frame to the address the device had before, authentic under its keys: no device has that address now
			f := refUplink(d.nwk, d.app, []byte{2, 4}[rng.Intn(2)], *d.formerAddr, d.fcnt, 0, nil, 1+rng.Intn(200), randBytes(rng, rng.Intn(12)))
			h.rx(f, "uplink.former-address")
			continue
		}
		if d.formerKey != nil && rng.Intn(4) == 0 {
			// a join-request under the AppKey the device had before
			nonce := uint16(rng.Intn(65536))
			h.rx(refJoinRequest(d.formerKey, d.appeui, d.eui, nonce), "join.former-key")
			continue
		}
		r := rng.Intn(total)
		switch {
		case r >= total-prof.wCrash:
			var f []byte
			tag := "crash.uplink"
			if !d.joined || (d.otaa && rng.Intn(3) == 0) {
				nonce := uint16(rng.Intn(65536))
				f = refJoinRequest(d.appkey, d.appeui, d.eui, nonce)
				d.lastNonce = nonce
				d.usedNonces = append(d.usedNonces, nonce)
				tag = "crash.join"
			} else {
				fcnt := d.fcnt
				if rng.Intn(4) == 0 {
					fcnt += uint16(1 + rng.Intn(3))
				}
				f = h.validUplink(d, rng.Intn(2) == 0, rng.Intn(3) == 0, fcnt, 1+rng.Intn(200), randBytes(rng, rng.Intn(20)), nil)
				h.lastValid[di] = f
				d.fcnt = fcnt + 1
			}
			k := rng.Intn(17)
			if rng.Intn(5) == 0 {
				k = -1
				tag += ".faults-only"
			}
			var fails []int
			if k < 0 || rng.Intn(2) == 0 {
				for j := 0; j < 1+rng.Intn(2); j++ {
					fails = append(fails, rng.Intn(15))
				}
			}
			h.rxCrash(f, k, fails, tag)
			h.rx(f, "redelivery")
			if rng.Intn(2) == 0 {
				h.rx(f, "redelivery")
			}
		case r < prof.wUplink || (r < prof.wUplink+prof.wCorrupt && true):
			isCorrupt := r >= prof.wUplink
			if !d.joined {
				// a frame "for" a device without a session: its DevAddr under the all-zero key
				f := refUplink(make([]byte, 16), make([]byte, 16), byte(2+2*rng.Intn(2)), d.addr, uint16(rng.Intn(3)), 0, nil, 1+rng.Intn(200), randBytes(rng, rng.Intn(10)))
				h.rx(f, "uplink.zero-key")
				continue
			}
			fcnt := d.fcnt
			switch rng.Intn(8) {
			case 0:
				fcnt += uint16(1 + rng.Intn(5)) // lost frames
			case 1:
				if fcnt > 0 {
					switch rng.Intn(3) {
					case 0:
						fcnt -= uint16(1 + rng.Intn(int(fcnt)%7+1)) // small regression
					case 1:
						fcnt = uint16(rng.Intn(int(fcnt))) // any older counter
					default:
						fcnt = uint16(rng.Intn(3)) // restart from the beginning
					}
				}
			case 2:
				if rng.Intn(3) == 0 {
					fcnt = []uint16{32768, 40000, 65534, 65535}[rng.Intn(4)] // far ahead
					if fcnt < d.fcnt {
						fcnt = d.fcnt
					}
				}
			}
			confirmed := prof.confirmedOnly || rng.Intn(3) == 0
			ackFlag := rng.Intn(3) == 0
			port := 1 + rng.Intn(223)
			plen := rng.Intn(40)
			if rng.Intn(10) == 0 {
				plen = []int{0, 15, 16, 17, 32, 51, 115, 222, 242}[rng.Intn(9)]
			}
			var fopts []byte
			if rng.Intn(4) == 0 {
				fopts = genOptBytes(rng, true, rng.Intn(16))
			}
			if 13+len(fopts)+plen > 255 { // a LoRa PHY payload is at most 255 bytes
				plen = 255 - 13 - len(fopts)
			}
			oversize := false
			if prof.name == "C11" && rng.Intn(12) == 0 {
				// ... on the air; a gateway's datagram can report any length: frames around and beyond the limit, for a
				// known address, with a good or a bad MIC
				plen = []int{243, 246, 247, 250, 287, 300, 1000}[rng.Intn(7)] - len(fopts)
				oversize = true
			}
			payload := randBytes(rng, plen)
			if rng.Intn(20) == 0 {
				port = -1
				payload = nil
			}
			f := h.validUplink(d, confirmed, ackFlag, fcnt, port, payload, fopts)
			tag := "uplink.valid"
			if oversize {
				// beyond 255 bytes the specification's MIC (one length octet in B0) is not defined: such frames are sent
				// with a MIC that is wrong under every reading
				f[len(f)-1] ^= 0x55
				f[len(f)-3] ^= 0xaa
				h.rx(f, "corrupt.oversize")
				continue
			}
			if isCorrupt {
				switch rng.Intn(4) {
				case 0: // MIC under another key
					other := randBytes(rng, 16)
					if rng.Intn(2) == 0 {
						other = make([]byte, 16)
					}
					f = refUplink(other, d.app, f[0]>>5, d.addr, fcnt, f[5]>>4, fopts, port, payload)
					tag = "corrupt.wrong-key"
				case 1: // downlink-typed frame with a MIC valid for its direction
					g := append([]byte{}, f[:len(f)-4]...)
					g[0] = byte([]int{3, 5, 1, 6, 7}[rng.Intn(5)]) << 5
					dir := byte(1)
					f = append(g, refMIC(d.nwk, dir, d.addr, uint32(fcnt), g)...)
					tag = "corrupt.downlink-typed"
				default:
					f, tag = corrupt(rng, f)
				}
			} else {
				h.lastValid[di] = f
				if fcnt >= d.fcnt {
					d.fcnt = fcnt + 1
				}
			}
			h.rx(f, tag)
		case r < prof.wUplink+prof.wCorrupt+prof.wReplay:
			if prof.name == "C11" && rng.Intn(3) != 0 {
				// bytes that are no frame at all: every length from one byte up, most of them undecodable
				h.rx(randBytes(rng, 1+rng.Intn(40)), "uplink.garbage")
				continue
			}
			if f, ok := h.lastValid[di]; ok {
				if rng.Intn(3) == 0 && len(f) > 13 {
					// a copy of a frame that was delivered before, altered between header and MIC (same address, counter
					// and MIC octets): it is authentic for nobody, whatever was accepted earlier
					g := append([]byte{}, f...)
					g[8+rng.Intn(len(g)-12)] ^= byte(1 + rng.Intn(255))
					h.rx(g, "replay.altered")
				} else {
					h.rx(f, "uplink.replay")
				}
			} else {
				h.rx(randBytes(rng, 12+rng.Intn(20)), "uplink.random")
			}
		case r < prof.wUplink+prof.wCorrupt+prof.wReplay+prof.wJoin:
			nonce := uint16([]int{0, 1, 0x00ff, 0xff00, 0xffff, rng.Intn(65536)}[rng.Intn(6)])
			tag := "join.fresh"
			if len(d.usedNonces) > 0 && rng.Intn(3) == 0 {
				nonce = d.usedNonces[rng.Intn(len(d.usedNonces))]
				tag = "join.reused-nonce"
			}
			f := refJoinRequest(d.appkey, d.appeui, d.eui, nonce)
			switch rng.Intn(10) {
			case 0:
				f = refJoinRequest(randBytes(rng, 16), d.appeui, d.eui, nonce)
				tag = "join.wrong-key"
			case 1:
				f, tag = corrupt(rng, f)
				tag = "join." + tag
			case 2:
				f = refJoinRequest(d.appkey, d.eui, d.appeui, nonce)
				tag = "join.swapped-eui"
			case 6:
				// the device's own EUI and AppKey (the MIC verifies) but another application's EUI - a registered one when
				// there is one: the request does not name the application the device belongs to
				other := eui64(genEUI(rng))
				for _, a := range h.apps {
					if a != d.appeui {
						other = a
					}
				}
				if other != d.appeui {
					f = refJoinRequest(d.appkey, other, d.eui, nonce)
					tag = "join.other-application"
				}
			case 3:
				g := append(append([]byte{}, f[:19]...), 0)
				f = append(g, refCMAC(d.appkey, g)[:4]...)
				tag = "join.24-bytes"
			case 5: // octets inserted between the 19 signed octets and the MIC of a genuine request
				g := append(append([]byte{}, f[:19]...), randBytes(rng, 1+rng.Intn(8))...)
				f = append(g, f[19:23]...)
				tag = "join.lengthened"
			case 4: // RFU bits of the MHDR altered: the MIC covers the MHDR as received
				f = append([]byte{}, f...)
				f[0] |= byte(1+rng.Intn(7)) << 2
				tag = "join.mhdr-rfu"
			}
			if strings.HasPrefix(tag, "join.fresh") || tag == "join.reused-nonce" {
				d.lastNonce = nonce
				d.usedNonces = append(d.usedNonces, nonce)
			}
			h.rx(f, tag)
			if opts.disableNonceCheck && (tag == "join.fresh" || tag == "join.reused-nonce") && d.joined && rng.Intn(2) == 0 {
				// nonce check off: the device uses its new session, then the very same request arrives once more (a device that
				// restarts with the same DevNonce, or a replay) and the device uses that session too - every (session key,
				// downlink counter) pair may be on the air once only, so the two sessions must not share their keys
				for k := 0; k < 2; k++ {
					up := h.validUplink(d, true, false, d.fcnt, 1+rng.Intn(200), randBytes(rng, rng.Intn(10)), nil)
					d.fcnt++
					h.lastValid[di] = up
					h.rx(up, "uplink.valid")
					if k == 0 {
						h.rx(f, "join.same-request-again")
					}
				}
			}
		default:
			port := uint8([]int{1, 223, 1 + rng.Intn(223), 1 + rng.Intn(223)}[rng.Intn(4)]) // what the service lets an application queue
			if (os.Getenv("VERIF_EXPERIMENT_PORTS") != "" && rng.Intn(3) == 0) || (prof.oddPorts > 0 && rng.Intn(prof.oddPorts) == 0) {
				// queued through the storage layer (the service refuses these ports): port 0 with payload and ports 224..255 are
				// messages no frame can carry - never transmitted, hence never reported sent or acknowledged
				port = uint8([]int{0, 224, 255}[rng.Intn(3)])
			}
			n := 1 + rng.Intn(30)
			if rng.Intn(8) == 0 {
				n = []int{51, 52, 59, 60, 115, 123, 222, 230}[rng.Intn(8)]
			}
			if prof.maxSubmit > 0 && n > prof.maxSubmit {
				n = 1 + rng.Intn(prof.maxSubmit)
			}
			h.submit(d, port, rng.Intn(2) == 0, randBytes(rng, n))
		}
	}
	w.Case(suite, []string{fmt.Sprintf("cfg=%d:%d", opts.netID, b01(opts.disableNonceCheck)), "apps=" + strings.Join(apps, ","),
		"pop=" + strings.Join(pop, ";"), "ev=" + strings.Join(h.events, "|")}, strings.Join(h.obs, "|"))
}

var profiles = map[string]histProfile{
	"C01": {wUpdate: 25, badDatr: true, name: "C01", wUplink: 4, wCorrupt: 8, wJoin: 1, wSubmit: 1, wReplay: 1, maxDevs: 4, minEv: 8, maxEv: 25, shareAddr: 3},
	"C02": {badDatr: true, name: "C02", wUplink: 10, wCorrupt: 0, wJoin: 1, wSubmit: 1, wReplay: 0, maxDevs: 3, minEv: 8, maxEv: 20, shareAddr: 8},
	"C03": {wUpdate: 20, badDatr: true, name: "C03", wUplink: 8, wCorrupt: 1, wJoin: 1, wSubmit: 2, wReplay: 5, maxDevs: 2, minEv: 10, maxEv: 30, shareAddr: 0},
	"C04": {wUpdate: 12, badDatr: true, name: "C04", wUplink: 3, wCorrupt: 0, wJoin: 8, wSubmit: 0, wReplay: 0, maxDevs: 3, minEv: 6, maxEv: 16, shareAddr: 0},
	"C05": {staleWrites: 12, wUpdate: 30, badDatr: true, name: "C05", wUplink: 3, wCorrupt: 0, wJoin: 8, wSubmit: 1, wReplay: 1, maxDevs: 3, minEv: 8, maxEv: 20, shareAddr: 0, nonceOff: 3},
	"C06": {maxSubmit: 59, name: "C06", wUplink: 8, wCorrupt: 2, wJoin: 1, wSubmit: 6, wReplay: 1, maxDevs: 4, minEv: 10, maxEv: 30, shareAddr: 6},
	"C07": {nonceOff: 3, wUpdate: 20, badDatr: true, name: "C07", wUplink: 8, wCorrupt: 1, wJoin: 3, wSubmit: 3, wReplay: 1, maxDevs: 2, minEv: 10, maxEv: 30, confirmedOnly: true},
	"C08": {oddPorts: 6, maxSubmit: 59, name: "C08", wUplink: 9, wCorrupt: 1, wJoin: 0, wSubmit: 5, wReplay: 1, maxDevs: 3, minEv: 12, maxEv: 30},
	// a long life of one server under mostly undecodable / unauthentic radio payloads, valid traffic in between
	"C11": {noRestart: true, maxSubmit: 40, name: "C11", wUplink: 2, wCorrupt: 6, wJoin: 1, wSubmit: 1, wReplay: 9, maxDevs: 1, minEv: 320, maxEv: 380},
	"C10": {maxSubmit: 40, name: "C10", wUplink: 5, wCorrupt: 0, wJoin: 1, wSubmit: 3, wReplay: 2, wCrash: 6, maxDevs: 1, minEv: 8, maxEv: 20},
	// downlinks of every kind (acknowledgements, queued data, join-accepts) in answer to uplinks of every data rate and channel
	"C17": {name: "C17", wUplink: 8, wCorrupt: 0, wJoin: 3, wSubmit: 4, wReplay: 0, maxDevs: 3, minEv: 8, maxEv: 20},
	"C09": {sameTs: true, name: "C09", wUplink: 8, wCorrupt: 2, wJoin: 1, wSubmit: 3, wReplay: 3, maxDevs: 2, minEv: 10, maxEv: 30},
}

func histSuite(name string, quickN, thoroughN int) suiteFunc {
	return func(rng *rand.Rand, tier string, w *Writer) {
		n := quickN
		if tier == "thorough" {
			n = thoroughN
		}
		for i := 0; i < n; i++ {
			runHistory(rng, profiles[name], w, "hist"+name)
		}
	}
}

var schedKinds = map[string][]string{
	"C03": {"copies", "consecutive", "regressed", "rejoin"},
	"C05": {"join-copies", "rejoin"},
	"C07": {"copies", "consecutive", "regressed", "rejoin"},
	"C09": {"copies"},
	"C04": {"forged-join"},
	"C06": {"consecutive"},
	"C17": {"rejoin"},
}

func init() {
	for _, n := range []string{"C01", "C02", "C03", "C04", "C05", "C06", "C07", "C08", "C09", "C10"} {
		hs := histSuite(n, 120, 2500)
		if kinds, ok := schedKinds[n]; ok {
			ss := schedSuite("sched"+n, kinds, 24, 400)
			suites["sched"+n] = ss // the schedule part alone (used to survey outcome classes over many seeds)
			suites[n] = func(rng *rand.Rand, tier string, w *Writer) { hs(rng, tier, w); ss(rng, tier, w) }
		} else {
			suites[n] = hs
		}
	}
	// C04: the device's side of the join procedure as the library offers it (joindev.go)
	h04 := suites["C04"]
	suites["C04"] = func(rng *rand.Rand, tier string, w *Writer) { h04(rng, tier, w); joinDevSuite(rng, tier, w) }
	// C01: the histories feed the pipeline what a gateway reported; that the forwarder hands over exactly those bytes
	// (whatever the entry's other keys say) is run on the real forwarder as well
	h01, g01 := suites["C01"], suites["gwC01"]
	suites["C01"] = func(rng *rand.Rand, tier string, w *Writer) { h01(rng, tier, w); g01(rng, tier, w) }
	// C02: every frame a gateway reports must be storable - frames of one device in one datagram get different receive times
	h02, g02 := suites["C02"], suites["gwC02"]
	// ... and the last step, from the router to the application's stream (stream.go)
	suites["C02"] = func(rng *rand.Rand, tier string, w *Writer) {
		h02(rng, tier, w)
		g02(rng, tier, w)
		n := 20
		if tier == "thorough" {
			n = 300
		}
		for i := 0; i < n; i++ {
			streamCase(rng, w)
		}
		// five devices heard at the same instant (two gateways reporting at once): every one of the five frames is decoded,
		// attributed to its own device and recorded with its own reception
		for i := 0; i < n/3; i++ {
			burstCase(rng, w, "schedC09")
		}
	}
	// C17: the gateway side (gw.go) and, for the delay clause, the pipeline handing a join-accept to whichever handler reads the buffer
	gw17 := suites["C17"]
	ss17 := schedSuite("schedC17", schedKinds["C17"], 9, 200)
	suites["schedC17"] = ss17
	hs17 := histSuite("C17", 40, 800)
	suites["histC17"] = hs17
	suites["C17"] = func(rng *rand.Rand, tier string, w *Writer) { gw17(rng, tier, w); ss17(rng, tier, w); hs17(rng, tier, w) }
}
