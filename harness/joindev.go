//go:build verif

package main

import (
	"encoding/binary"
	"fmt"
	"math/rand"

	"github.com/lab5e/lospan/pkg/protocol"
)

// The device's side of the join procedure as the library offers it (PHYPayload.EncodeJoinRequest, PHYPayload.DecodeJoinAccept,
// used by the emulated device in cmd/eagle-one): C04's last clause is about these functions agreeing with the server, and the
// model of them (Model/Join.v) is tied to the code here.

func joinReqCase(rng *rand.Rand, w *Writer) {
	key := genKey(rng)
	appeui, deveui := genEUI(rng), genEUI(rng)
	nonce := uint16([]int{0, 1, 0x00ff, 0xff00, 0xffff, rng.Intn(65536)}[rng.Intn(6)])
	mt := protocol.JoinRequest
	if rng.Intn(8) == 0 {
		mt = protocol.MType(rng.Intn(8))
	}
	obs := ""
	func() {
		defer func() {
			if r := recover(); r != nil {
				obs = "PANIC"
			}
		}()
		p := protocol.NewPHYPayload(mt)
		p.JoinRequestPayload.AppEUI = eui64(appeui)
		p.JoinRequestPayload.DevEUI = eui64(deveui)
		p.JoinRequestPayload.DevNonce = nonce
		var k protocol.AESKey
		copy(k.Key[:], key)
		buf, err := p.EncodeJoinRequest(k)
		if err != nil {
			obs = fmt.Sprintf("err%d", errCode(err))
			return
		}
		obs = "ok:" + hx(buf)
	}()
	w.Case("joinreq", []string{kv("key", key), fmt.Sprintf("appeui=%x", appeui), fmt.Sprintf("deveui=%x", deveui),
		fmt.Sprintf("nonce=%d", nonce), fmt.Sprintf("mt=%d", mt)}, obs)
	w.Count(fmt.Sprintf("joindev.request.mtype=%d", mt))
}

func joinAccCase(rng *rand.Rand, w *Writer) {
	key := genKey(rng)
	var k protocol.AESKey
	copy(k.Key[:], key)
	// a genuine join-accept from the server's encoder
	srv := protocol.NewPHYPayload(protocol.JoinAccept)
	an := randBytes(rng, 3)
	copy(srv.JoinAcceptPayload.AppNonce[:], an)
	srv.JoinAcceptPayload.NetID = uint32(rng.Intn(1 << 24))
	srv.JoinAcceptPayload.DevAddr = protocol.DevAddrFromUint32(rng.Uint32())
	srv.JoinAcceptPayload.DLSettings.RX1DRoffset = uint8(rng.Intn(8))
	srv.JoinAcceptPayload.DLSettings.RX2DataRate = uint8(rng.Intn(16))
	srv.JoinAcceptPayload.RxDelay = uint8(rng.Intn(256))
	buf, err := srv.EncodeJoinAccept(k)
	if err != nil || len(buf) != 17 {
		buf = append([]byte{0x20}, randBytes(rng, 16)...)
	}
	tag := "genuine"
	devKey := key
	switch rng.Intn(6) {
	case 0:
		bit := 8 + rng.Intn(128)
		buf[bit/8] ^= 1 << uint(bit%8)
		tag = "bitflip"
	case 1:
		buf = append([]byte{0x20}, randBytes(rng, 16)...)
		tag = "random"
	case 2:
		devKey = genKey(rng)
		tag = "other-key"
	}
	var dk protocol.AESKey
	copy(dk.Key[:], devKey)
	obs := ""
	func() {
		defer func() {
			if r := recover(); r != nil {
				obs = "PANIC"
			}
		}()
		p := protocol.NewPHYPayload(protocol.Proprietary)
		_ = p.UnmarshalBinary(append([]byte{}, buf...)) // the MHDR, as the device's receive path decodes it
		if err := p.DecodeJoinAccept(dk, append([]byte{}, buf...)); err != nil {
			obs = fmt.Sprintf("err%d", errCode(err))
			return
		}
		j := p.JoinAcceptPayload
		obs = fmt.Sprintf("ok:%s/%d/%d/%d/%d/%d/%d", hx(j.AppNonce[:]), j.NetID, j.DevAddr.NwkID, j.DevAddr.NwkAddr, j.DLSettings.RX1DRoffset, j.DLSettings.RX2DataRate, j.RxDelay)
	}()
	var d [2]byte
	binary.BigEndian.PutUint16(d[:], uint16(rng.Intn(65536)))
	w.Case("joinacc", []string{kv("key", devKey), kv("buf", buf), kv("devnonce", d[:])}, obs)
	w.Count("joindev.accept." + tag)
}

func joinDevSuite(rng *rand.Rand, tier string, w *Writer) {
	n := 150
	if tier == "thorough" {
		n = 3000
	}
	for i := 0; i < n; i++ {
		joinReqCase(rng, w)
		joinAccCase(rng, w)
	}
}

func init() { suites["joindev"] = joinDevSuite }
