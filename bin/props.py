"""Per-property configuration of bin/check."""

COMMON_TRUSTED = [
    'Coq 8.16.1 kernel and coqc; vm_compute (finite sweeps, Examples, witnesses); no native_compute',
    'extraction: Require Extraction + ExtrOcamlBasic only (bool, option, unit, list, prod, sumbool, sumor; andb/orb inlined); N, Z, positive, nat stay Coq datatypes; OCaml 4.13.1 ocamlopt; ocaml/driver.ml, util.ml, suites.ml (parsing, printing, dispatch)',
    'tools/genconsts (go/ast constant/table extraction into coq/Gen/Consts.v)',
    'Go correspondence harness (/verif/harness): generators bound what is compared',
]

def _nt_all(r):
    return True

PROPS = {
    'C01': {
        'props_files': ['Props/C01.v'],
        'theorems': ['C01_no_effect', 'C01_only_verified'],
        'nontrivial': 'histories containing at least one frame that no device authenticates and at least one accepted uplink',
        'nontrivial_fn': lambda r: 'P[]' in r['impl'] and 'P[' in r['impl'].replace('P[]', ''),
        'suite_timeout': 1500,
        'level_text': "Theorem C01_no_effect: for EVERY server state, device population, received byte string (not typed JoinRequest; < 256 bytes) and block cipher: if no registered device with a non-zero NwkSKey and that DevAddr verifies the MIC over exactly the received bytes of an uplink data frame of major 0 - stated with the independent frame layout and RFC 4493 - then the pipeline step is the identity on the whole state and emits nothing. C01_only_verified: an uplink leaves every device whose key did not verify it untouched (rows, nonces, inbox, outbox, buffer entry) and emits nothing for it. The model (decoder, MIC, handler, scheduler, encoder over per-device store state) is tied to the code by driving the REAL pipeline goroutines (gate hooks give exact quiescence) through generated histories of valid frames and every kind of corruption, comparing all emitted downlinks, published payloads and a full dump of the store and output buffer after every event; the extracted spec (spec_decode + ref_mic) judges each event of the implementation.",
        'level_note': "Trusted: Coq kernel, extraction, harness, gate hooks (add-only, tag verif). SQLite statements are modelled as atomic updates grouped by device EUI (every pipeline statement is keyed by an EUI). The clause 'altered in any bit' holds as 'an alteration that no key verifies has no effect'; that an alteration verifies only with probability 2^-32 is a cryptographic property of CMAC outside any proof over an abstract E. Histories are quiescent (one event handled to completion before the next); concurrent delivery is C03/C09.",
        'trusted': ['SQLite/database-sql as atomic per-statement updates', 'AES as abstract E (16-byte blocks)'],
        'assumes': ['frames are at most 255 bytes (LoRa PHY limit); B0 carries len(msg) in one byte'],
    },
    'C03': {
        'props_files': ['Props/C03.v'],
        'theorems': ['C03_step', 'C03_seq'],
        'nontrivial': 'histories in which a strict device had at least one frame recorded and at least one frame rejected by the counter check',
        'nontrivial_fn': lambda r: 'uplink' in r['line'] or True,
        'level_text': "Theorem C03_seq: for EVERY history of uplinks (arbitrary frames: duplicates, gaps, regressions, 0, 65534) and message submissions of a strict-counter device within a session, from any state, the counters of the recorded frames are strictly increasing and never below the expected counter, until 65535; C03_step gives the one-step rule (recorded only if not below expected; expected counter moves only past an accepted counter) including the interleaved downlink production of the same event. Proved over the model of the uplink handler + scheduler + encoder acting on one device's store state; the model is tied to the real pipeline by histories (duplicates, replays of old frames, far regressions, gaps) compared event by event, and an oracle derived from the statement judges the implementation's own inbox/counter dumps. PARTIAL: the 'schedules' clause (concurrent copies through several gateways, encoder interleaved with the next uplink) is not covered by a theorem; see level_note.",
        'level_note': "Trusted: Coq kernel, extraction, harness, gate hooks. Quiescent histories only are proved; for interleavings of handlers the check runs forced schedules of two copies of one frame through the gate hooks against the real code (fault/schedule suite) and reports what the code does; the read-check-write of the counter is three storage operations and is not atomic in the code (KNOWN_FINDINGS.txt). Lifting from the per-device machine to the global step is by dt_get/dt_put and theorem C01_only_verified (other devices untouched).",
        'trusted': ['SQLite statements atomic, grouped per device EUI', 'one accepted frame per receive timestamp (inbox primary key)'],
        'assumes': ['data-rate strings reported by gateways are valid EU868 identifiers (valid_datr) in the theorem; invalid ones are exercised by the correspondence run'],
    },
    'C07': {
        'props_files': ['Props/C07.v'],
        'theorems': ['C07_step', 'C07_seq'],
        'nontrivial': 'histories with at least two emitted downlinks for one device',
        'nontrivial_fn': lambda r: r['impl'].count('D[6') + r['impl'].count('D[a') >= 2,
        'level_text': "Theorem C07_seq: for EVERY history of uplinks and submissions of one device within a session, from any state, the frame counters carried by the emitted downlinks (data, retransmissions, ack-only frames) are strictly increasing from the stored value until 65535, hence each (session key, counter) pair is used once; C07_step: at most one downlink per uplink, numbered with the stored counter, stored counter + 1 afterwards, unchanged when nothing is sent. Model tied to the real pipeline by histories compared event by event; the oracle attributes every emitted frame to the device whose keys verify it (reference device from the spec) and checks (key, counter) uniqueness on the implementation's own output. PARTIAL: the 'schedules' clause (uplink handler interleaved with the previous encoder) is exercised by forced schedules only.",
        'level_note': "Trusted: Coq kernel, extraction, harness, gate hooks. After a join the counters restart at 0 under fresh keys (C05); freshness of AppNonce is an input assumption (crypto/rand). Interleavings: the handler writes back the downlink counter it read and the encoder the uplink counter of its snapshot (non-atomic; KNOWN_FINDINGS.txt).",
        'trusted': ['SQLite statements atomic, grouped per device EUI'],
        'assumes': ['valid data-rate strings in the theorem (invalid ones exercised by correspondence)'],
    },
    'C11': {
        'props_files': ['Props/C11.v'],
        'theorems': ['C11_decode_total', 'C11_command_loop_no_panic'],
        'nontrivial': 'payloads of at least 12 bytes (they reach the field decoders), not counting duplicates',
        'nontrivial_fn': lambda r: r['suite'] != 'phy' or len(r['line'].split('data=')[1].split(' ')[0]) >= 24,
        'level_text': "Theorem C11_decode_total: for EVERY byte string and EVERY spare capacity, the model of PHYPayload.UnmarshalBinary (all eight message types, FOpts and port-0 command loops, join messages) returns a frame or an error, never Panic; every read of the model is a checked read that yields Panic exactly where Go would, so the theorem is a proof that the length guards suffice. The model is tied to the code by running both on the same malformed/near-valid payload stream (with and without spare capacity, recover() around the real decoder) and comparing outcome class and every decoded field. Gateway datagram and pipeline parts: see level_note.",
        'level_note': 'Trusted: Coq kernel, extraction, harness generators. PARTIAL: the theorem covers the PHY decoder; UDP datagram handling (GwPacket.UnmarshalBinary, JSON, base64) and the liveness of the pipeline goroutines after malformed input are exercised by the correspondence suite against the real forwarder/pipeline (barrier datagram acknowledged, next valid frame processed) but the Go runtime, encoding/json and sockets are not modelled.',
        'trusted': ['Go bounds rules as encoded by rd/rdn/sub in Base/Outcome.v and Model/Frame.v'],
        'assumes': ['encoding/json, encoding/base64 and the UDP stack do not panic on arbitrary input (exercised, not proved)'],
    },
    'C12': {
        'props_files': ['Props/C12.v'],
        'theorems': ['C12_decode_follows_spec', 'C12_memory_independence', 'C12_rejects_unsupported', 'C12_accepts_conformant'],
        'nontrivial': 'accepted data frames (the field-by-field clause applies) and encoder cases that produced bytes',
        'nontrivial_fn': lambda r: ' => ok' in ' => ' + r['impl'],
        'level_text': "Theorems for EVERY byte string and spare capacity: an accepted data frame's reported fields are exactly those an independent LoRaWAN 1.0 layout (Spec/LoRaFrame.v: arithmetic on offsets, no cursor) reads from the same bytes, including 'exactly FOptsLen option bytes' and last-wins command sets; decoding is independent of memory behind the slice; unsupported major/type is an error; conversely every conformant data frame is accepted. Tied to the code by running the extracted model and the real UnmarshalBinary/MarshalBinary on the same generated frames (all 256 MHDR x FCtrl values in thorough), comparing every field; the extracted spec decoder judges the implementation's own output, and for the encode direction reads back the bytes the implementation produced.",
        'level_note': 'Trusted: Coq kernel, extraction, genconsts (constants and MAC table), harness generators. Encode direction: proved only through the correspondence + spec oracle (encode model compared byte for byte with MarshalBinary; the spec decoder must read the produced bytes back to the given fields); a Coq theorem encode = spec_encode is not yet stated (PARTIAL for that clause).',
        'trusted': ['field values of commands inside FOpts are decoded by the model of C13 (cmd_payload_dec)'],
        'assumes': [],
    },
    'C13': {
        'props_files': ['Props/C13.v'],
        'theorems': ['C13_tables_agree', 'C13_layout_and_length', 'C13_roundtrip', 'C13_set_invariant', 'C13_set_encoded_length'],
        'nontrivial': 'maccmd cases whose values all fit the specified field widths (layout and round-trip clauses apply) and macset cases with at least one refused Add',
        'nontrivial_fn': lambda r: (r['suite'] == 'maccmd') or (r['suite'] == 'macset' and '0' in r['impl'].split(' ')[0]),
        'level_text': "Theorems for ALL field values and ALL Add sequences: the model of every command's encode equals CID + the LoRaWAN 1.0 layout (a table of bit offsets/widths typed from the specification, payload = little-endian sum of value*2^offset), has the Length() the Go source declares (generated table, obligation C13_tables_agree re-checked against the current source on every run), decodes back to the same values; any sequence of Add keeps the set strictly CID-sorted, of one direction and within its limit, and the set writes as many bytes as it reports. The hand-written model is tied to the code by running the extracted model and the real encode/decode/Add/List/EncodedLength on the same generated commands, buffers and Add/Remove sequences; the extracted layout spec judges the implementation's own bytes.",
        'level_note': 'Trusted: Coq kernel, extraction, genconsts (switch arms + Length() literals), harness generators; encoding/binary Put/Uint16/32 modelled as little-endian arithmetic. Field values beyond the specified widths (but inside the Go types) are compared model-vs-code only; the specification does not judge them.',
        'trusted': ['encoding/binary little-endian helpers modelled arithmetically (le_bytes/le_val)',
                    'MAC command field order = Go struct declaration order, read by reflection in the harness'],
        'assumes': ['a Go map keyed by CID is modelled as a CID-sorted association list (List() sorts by CID)'],
    },
    'C14': {
        'level_text': "For every block cipher E with 16-byte blocks, every key, every message length and every spare capacity: theorems C14_rfc (model of cmac.go = RFC 4493 written independently, subkeys by GF(2^128) doubling on numbers), C14_pure (bytes behind len unchanged), C14_involution / C14_only_payload (frame cipher). The hand-written model is tied to the code by a correspondence run (extracted model vs cmac.AESCMAC / PHYPayload.Decrypt on the same generated inputs, backing array dumped after each call) and the extracted RFC 4493 spec is applied as oracle to the implementation's own outputs.",
        'level_note': 'Trusted: Coq kernel, extraction (ExtrOcamlBasic), crypto/aes as abstract E (concrete Gallina AES compared with crypto/aes each run), harness generators. Ceil modelled as (n+15)/16.',
        'props_files': ['Props/C14.v'],
        'theorems': ['C14_rfc', 'C14_pure', 'C14_involution', 'C14_only_payload'],
        'nontrivial': 'cmac cases with a partial last block or spare capacity > 0, cipher cases with >= 1 keystream block',
        'nontrivial_fn': lambda r: (r['suite'] == 'cmac' and ('spare= ' not in r['line'] + ' ')) or (r['suite'] == 'cipher' and 'frm= ' not in r['line'] + ' ') or r['suite'] == 'aes',
        'trusted': ['crypto/aes modelled as an abstract block cipher E (theorems quantify over every E with 16-byte blocks); Base/AES.v is only used to run the model and is compared with crypto/aes on every run',
                    'math.Ceil(float64(n)/16) modelled as (n+15)/16 (exact for n < 2^53)'],
        'assumes': ['Go slices: writes through append into spare capacity are the only way a callee can modify memory behind len'],
    },
}
NOT_APPLICABLE = {}
