"""Per-property configuration of bin/check."""

COMMON_TRUSTED = [
    'Coq 8.16.1 kernel and coqc; vm_compute (finite sweeps, Examples, witnesses); no native_compute',
    'extraction: Require Extraction + ExtrOcamlBasic only (bool, option, unit, list, prod, sumbool, sumor; andb/orb inlined); N, Z, positive, nat stay Coq datatypes; OCaml 4.13.1 ocamlopt; ocaml/driver.ml, util.ml, suites.ml (parsing, printing, dispatch)',
    'tools/genconsts (go/ast constant/table extraction into coq/Gen/Consts.v)',
    'Go correspondence harness (/verif/harness): generators bound what is compared',
]

def _nt_all(r):
    return True

PROPS = {
    'C13': {
        'props_files': ['Props/C13.v'],
        'theorems': ['C13_tables_agree', 'C13_layout_and_length', 'C13_roundtrip', 'C13_set_invariant', 'C13_set_encoded_length'],
        'nontrivial': 'maccmd cases whose values all fit the specified field widths (layout and round-trip clauses apply) and macset cases with at least one refused Add',
        'nontrivial_fn': lambda r: (r['suite'] == 'maccmd') or (r['suite'] == 'macset' and '0' in r['impl'].split(' ')[0]),
        'level_text': "Theorems for ALL field values and ALL Add sequences: the model of every command's encode equals CID + the LoRaWAN 1.0 layout (a table of bit offsets/widths typed from the specification, payload = little-endian sum of value*2^offset), has the Length() the Go source declares (generated table, obligation C13_tables_agree re-checked against the current source on every run), decodes back to the same values; any sequence of Add keeps the set strictly CID-sorted, of one direction and within its limit, and the set writes as many bytes as it reports. The hand-written model is tied to the code by running the extracted model and the real encode/decode/Add/List/EncodedLength on the same generated commands, buffers and Add/Remove sequences; the extracted layout spec judges the implementation's own bytes.",
        'level_note': 'Trusted: Coq kernel, extraction, genconsts (switch arms + Length() literals), harness generators; encoding/binary Put/Uint16/32 modelled as little-endian arithmetic. Field values beyond the specified widths (but inside the Go types) are compared model-vs-code only; the specification does not judge them.',
        'trusted': ['encoding/binary little-endian helpers modelled arithmetically (le_bytes/le_val)',
                    'MAC command field order = Go struct declaration order, read by reflection in the harness'],
        'assumes': ['a Go map keyed by CID is modelled as a CID-sorted association list (List() sorts by CID)'],
    },
    'C14': {
        'level_text': "For every block cipher E with 16-byte blocks, every key, every message length and every spare capacity: theorems C14_rfc (model of cmac.go = RFC 4493 written independently, subkeys by GF(2^128) doubling on numbers), C14_pure (bytes behind len unchanged), C14_involution / C14_only_payload (frame cipher). The hand-written model is tied to the code by a correspondence run (extracted model vs cmac.AESCMAC / PHYPayload.Decrypt on the same generated inputs, backing array dumped after each call) and the extracted RFC 4493 spec is applied as oracle to the implementation's own outputs.",
        'level_note': 'Trusted: Coq kernel, extraction (ExtrOcamlBasic), crypto/aes as abstract E (concrete Gallina AES compared with crypto/aes each run), harness generators. Ceil modelled as (n+15)/16.',
        'props_files': ['Props/C14.v'],
        'theorems': ['C14_rfc', 'C14_pure', 'C14_involution', 'C14_only_payload'],
        'nontrivial': 'cmac cases with a partial last block or spare capacity > 0, cipher cases with >= 1 keystream block',
        'nontrivial_fn': lambda r: (r['suite'] == 'cmac' and ('spare= ' not in r['line'] + ' ')) or (r['suite'] == 'cipher' and 'frm= ' not in r['line'] + ' ') or r['suite'] == 'aes',
        'trusted': ['crypto/aes modelled as an abstract block cipher E (theorems quantify over every E with 16-byte blocks); Base/AES.v is only used to run the model and is compared with crypto/aes on every run',
                    'math.Ceil(float64(n)/16) modelled as (n+15)/16 (exact for n < 2^53)'],
        'assumes': ['Go slices: writes through append into spare capacity are the only way a callee can modify memory behind len'],
    },
}
NOT_APPLICABLE = {}
