"""Per-property configuration of bin/check."""

COMMON_TRUSTED = [
    'Coq 8.16.1 kernel and coqc; vm_compute (finite sweeps, Examples, witnesses); no native_compute',
    'extraction: Require Extraction + ExtrOcamlBasic only (bool, option, unit, list, prod, sumbool, sumor; andb/orb inlined); N, Z, positive, nat stay Coq datatypes; OCaml 4.13.1 ocamlopt; ocaml/driver.ml, util.ml, suites.ml (parsing, printing, dispatch)',
    'tools/genconsts (go/ast constant/table extraction into coq/Gen/Consts.v)',
    'Go correspondence harness (/verif/harness): generators bound what is compared',
]

def _nt_all(r):
    return True

PROPS = {
    'C14': {
        'props_files': ['Props/C14.v'],
        'theorems': ['C14_rfc', 'C14_pure', 'C14_involution', 'C14_only_payload'],
        'nontrivial': 'cmac cases with a partial last block or spare capacity > 0, cipher cases with >= 1 keystream block',
        'nontrivial_fn': lambda r: (r['suite'] == 'cmac' and ('spare= ' not in r['line'] + ' ')) or (r['suite'] == 'cipher' and 'frm= ' not in r['line'] + ' ') or r['suite'] == 'aes',
        'trusted': ['crypto/aes modelled as an abstract block cipher E (theorems quantify over every E with 16-byte blocks); Base/AES.v is only used to run the model and is compared with crypto/aes on every run',
                    'math.Ceil(float64(n)/16) modelled as (n+15)/16 (exact for n < 2^53)'],
        'assumes': ['Go slices: writes through append into spare capacity are the only way a callee can modify memory behind len'],
    },
}
