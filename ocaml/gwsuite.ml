(* Gateway histories: registry operations, datagrams and downlinks through the extracted gw_step /
   encode_and_send, printed like the harness prints what the real forwarder did over UDP. *)
open Lospan_model
type cstring = Lospan_model.string
type string = Stdlib.String.t
open Util

let rec ocaml_string_of (s : cstring) : string =
  match s with
  | EmptyString -> ""
  | String (Ascii (b0, b1, b2, b3, b4, b5, b6, b7), t) ->
    let v = List.fold_right (fun b acc -> acc * 2 + (if b then 1 else 0)) [b0; b1; b2; b3; b4; b5; b6; b7] 0 in
    String.make 1 (Char.chr v) ^ ocaml_string_of t

let parse_entry s =
  match String.split_on_char '/' s with
  | [tmst; ch; rfch; datr; rssi; lsnr; data] ->
    { k_tmst = n_of_int (int_of_string tmst); k_chan = n_of_int (int_of_string ch); k_rfch = n_of_int (int_of_string rfch);
      k_datr = coq_string_of datr; k_rssi = z_of_int (int_of_string rssi); k_lsnr = coq_string_of lsnr;
      k_data = (if data = "!" then None else Some (bytes_of_hex data)) }
  | _ -> failwith ("bad entry " ^ s)

let fwd_str (f : fwd) =
  Printf.sprintf "F:%d:%d:%s:%d:%s:%d:%s:%s:%d:%d:%s:%s" (int_of_n f.fw_rx.k_chan) (int_of_n f.fw_rx.k_rfch) (ocaml_string_of f.fw_rx.k_datr)
    (int_of_z f.fw_rx.k_rssi) (ocaml_string_of f.fw_rx.k_lsnr) (int_of_n f.fw_rx.k_tmst) (hex_of_n f.fw_gweui) (ocaml_string_of f.fw_host)
    (int_of_n f.fw_port) (int_of_n f.fw_ver) (ocaml_string_of f.fw_freq) (hex_of_bytes f.fw_raw)

let index_of x l = let rec go i = function [] -> -1 | y :: t -> if x = y then i else go (i + 1) t in go 0 l

let s_gw g obs =
  let nochecks = getbool g "nochecks" in
  let sockl = List.map (fun x -> match String.split_on_char '@' x with [h; p] -> (h, int_of_string p) | _ -> failwith "socks") (String.split_on_char ',' (g "socks")) in
  let socks = List.map snd sockl in
  let sock_index h p = let rec go i = function [] -> -1 | (h2, p2) :: t -> if h2 = h && p2 = p then i else go (i + 1) t in go 0 sockl in
  let evs = String.split_on_char '|' (g "ev") in
  let st = ref { gs_ports = []; gs_regs = []; gs_nochecks = nochecks } in
  let verdict = ref "ok" in
  let iobs = Array.of_list (String.split_on_char '|' obs) in
  let lines = List.mapi (fun i ev ->
    let io = if i < Array.length iobs then iobs.(i) else "" in
    match String.split_on_char ',' ev with
    | [op; eui; ip; strict] when op = "REG" || op = "UPD" || op = "DEL" ->
      let e = n_of_hex eui in
      let exists = List.exists (fun r -> r.gr_eui = e) !st.gs_regs in
      let reg = { gr_eui = e; gr_ip = coq_string_of ip; gr_strict = (strict = "1") } in
      let (regs, ok) = match op with
        | "REG" -> if exists then (!st.gs_regs, false) else (!st.gs_regs @ [reg], true)
        | "UPD" -> if exists then (List.map (fun r -> if r.gr_eui = e then reg else r) !st.gs_regs, true) else (!st.gs_regs, false)
        | _ -> if exists then (List.filter (fun r -> r.gr_eui <> e) !st.gs_regs, true) else (!st.gs_regs, false) in
      st := { !st with gs_regs = regs };
      "R" ^ (if ok then "1" else "0")
    | gk :: si :: hex :: cls :: rest when gk = "G" || gk = "GF" ->
      (* GF: the registry look-up for this datagram fails - as if no gateway were registered, for this datagram only *)
      let saved_regs = !st.gs_regs in
      if gk = "GF" then st := { !st with gs_regs = [] };
      let si = int_of_string si in
      let data = bytes_of_hex hex in
      let opaque = (cls = "opaque") in
      let ents = match rest with [e] when e <> "" -> List.map parse_entry (String.split_on_char ';' e) | _ -> [] in
      (match gw_unmarshal data with
       | Ok pkt ->
         let body = if cls = "valid" || cls = "norxpk" then Some ents else None in
         let d = { dg_pkt = pkt; dg_host = coq_string_of (fst (List.nth sockl si)); dg_port = n_of_int (List.nth socks si); dg_body = body } in
         let was_auth = authorised !st d in
         let ((s', replies), fwds) = gw_step !st d in
         st := { s' with gs_regs = saved_regs };
         let rs = List.sort compare (List.filter_map (fun r ->
             let idx = sock_index (ocaml_string_of r.rp_host) (int_of_n r.rp_port) in
             if idx < 0 then None else
               Some (Printf.sprintf "%d:%02x%02x%02x%02x" idx (int_of_n r.rp_ver) (int_of_n r.rp_token / 256) (int_of_n r.rp_token mod 256) (int_of_n r.rp_ident))) replies) in
         (* oracle on the implementation's observation: one ack per request with the request's token,
            nothing at all for an unauthorised PUSH_DATA *)
         let has_sub s sub = (try ignore (Str.search_forward (Str.regexp_string sub) s 0); true with Not_found -> false) in
         if has_sub io "SAME-RECEIVE-TIME" && !verdict = "ok" then verdict := "bad:entries-of-one-datagram-share-a-receive-time";
         let iack = (try let j = String.index io ']' in String.sub io 1 (j - 1) with _ -> "") in
         if int_of_n pkt.gp_ident = 0 && not was_auth && (iack <> "" || (not opaque && io <> "[] []")) then verdict := "bad:unauthorised-gateway-served";
         if int_of_n pkt.gp_ident = 0 && was_auth && iack <> String.concat " " rs then verdict := "bad:push-data-not-acknowledged-once-with-token";
         if int_of_n pkt.gp_ident = 2 && iack <> String.concat " " rs then verdict := "bad:pull-data-not-acknowledged-once-with-token";
         (if int_of_n pkt.gp_ident = 0 && was_auth && not opaque && !verdict = "ok" then
            let ifw = (try let j = String.index io ']' in String.sub io (j + 2) (String.length io - j - 2) with _ -> "") in
            if ifw <> "[" ^ String.concat " " (List.map fwd_str fwds) ^ "]" then verdict := "bad:rxpk-entries-not-handed-over-once-in-order-intact");
         "[" ^ String.concat " " rs ^ "] " ^ (if opaque then "F?" else "[" ^ String.concat " " (List.map fwd_str fwds) ^ "]")
       | _ -> st := { !st with gs_regs = saved_regs };
         if io <> "[] []" && io <> "[] F?" && !verdict = "ok" then verdict := "bad:malformed-datagram-answered";
         "[] " ^ (if opaque then "F?" else "[]"))
    | ["DL"; eui; clock; delay; freq; datr; ver; raw; dlhost] ->
      let host = coq_string_of dlhost in
      let rawb = bytes_of_hex raw in
      let r = encode_and_send !st rawb (n_of_int (int_of_string clock)) (n_of_int (int_of_string delay)) (coq_string_of freq)
          (coq_string_of datr) (n_of_hex eui) host (n_of_int (int_of_string ver)) in
      let idx = sock_index dlhost (int_of_n r.pr_port) in
      let t = r.pr_tx in
      let kv = List.filter_map (fun (k, v, zero) -> if key_present (coq_string_of k) zero then Some (k ^ "=" ^ v) else None)
          [ ("codr", ocaml_string_of t.t_codr, ocaml_string_of t.t_codr = ""); ("data", hex_of_bytes t.t_data, false);
            ("datr", ocaml_string_of t.t_datr, false); ("freq", ocaml_string_of t.t_freq, false);
            ("imme", (if t.t_imme then "true" else "false"), false); ("ipol", (if t.t_ipol then "true" else "false"), not t.t_ipol);
            ("modu", ocaml_string_of t.t_modu, false); ("rfch", string_of_int (int_of_n t.t_rfch), false);
            ("size", string_of_int (int_of_n t.t_size), false); ("tmst", string_of_int (int_of_n t.t_tmst), t.t_tmst = N0) ] in
      let line = if idx < 0 then "[] []" else Printf.sprintf "[%d:PR:%d:{%s}] []" idx (int_of_n r.pr_ver) (String.concat "," kv) in
      (* oracle: tmst present and equal to (clock + delay * 10^6) mod 2^32, sent to the last PULL_DATA port *)
      let want_tmst = (int_of_string clock + 1000000 * int_of_string delay) land 0xffffffff in
      if idx >= 0 && !verdict = "ok" then begin
        let has s sub = (try ignore (Str.search_forward (Str.regexp_string sub) s 0); true with Not_found -> false) in
        if not (has io (Printf.sprintf "[%d:PR:" idx)) then verdict := "bad:pull-resp-not-sent-to-last-pull-data-port"
        else if not (has io (Printf.sprintf "tmst=%d}" want_tmst) || has io (Printf.sprintf "tmst=%d," want_tmst)) then verdict := "bad:txpk-tmst-missing-or-wrong"
        else if not (has io ("data=" ^ raw ^ ",")) || not (has io (Printf.sprintf "size=%d," (List.length rawb))) then verdict := "bad:txpk-size-or-data"
        else if not (has io ("datr=" ^ datr ^ ",")) || not (has io ("freq=" ^ freq ^ ",")) || not (has io "ipol=true") then verdict := "bad:txpk-radio-parameters"
      end;
      line
    | _ -> "?") evs in
  (String.concat "|" lines, !verdict)
