(* Conversions between OCaml values and the extracted Coq datatypes, and the
   line format of case files. Parsing and printing only. *)
open Lospan_model
type cstring = Lospan_model.string
type string = Stdlib.String.t

let rec pos_of_int n =
  if n <= 1 then XH else if n land 1 = 0 then XO (pos_of_int (n lsr 1)) else XI (pos_of_int (n lsr 1))
let n_of_int n = if n <= 0 then N0 else Npos (pos_of_int n)
let rec int_of_pos = function XH -> 1 | XO p -> 2 * int_of_pos p | XI p -> 2 * int_of_pos p + 1
let int_of_n = function N0 -> 0 | Npos p -> int_of_pos p
let rec nat_of_int n = if n <= 0 then O else S (nat_of_int (n - 1))
let rec int_of_nat = function O -> 0 | S n -> 1 + int_of_nat n

let z_of_int n = if n = 0 then Z0 else if n > 0 then Zpos (pos_of_int n) else Zneg (pos_of_int (-n))
let int_of_z = function Z0 -> 0 | Zpos p -> int_of_pos p | Zneg p -> - (int_of_pos p)

let hexval c = match c with
  | '0'..'9' -> Char.code c - 48 | 'a'..'f' -> Char.code c - 87 | 'A'..'F' -> Char.code c - 55
  | _ -> failwith ("bad hex digit " ^ String.make 1 c)

(* arbitrary-size hex number -> N, built bit by bit (no machine-int overflow) *)
let n_of_hex (s : string) : n =
  (* bits most significant first *)
  let bits = ref [] in
  String.iter (fun c -> let v = hexval c in
    List.iter (fun k -> bits := ((v lsr k) land 1 = 1) :: !bits) [3;2;1;0]) s;
  (* !bits is least significant first *)
  let rec build = function
    | [] -> None
    | b :: rest ->
      (match build rest with
       | None -> if b then Some XH else None
       | Some p -> Some (if b then XI p else XO p)) in
  match build !bits with None -> N0 | Some p -> Npos p
let hex_of_n (v : n) : string =
  let rec bits p = match p with XH -> [true] | XO q -> false :: bits q | XI q -> true :: bits q in
  match v with
  | N0 -> "0"
  | Npos p ->
    let bl = bits p in (* lsb first *)
    let rec nibbles l = match l with
      | [] -> []
      | _ ->
        let rec take k l = if k = 0 then ([], l) else match l with [] -> (false :: fst (take (k-1) []), []) | b :: t -> let (a, r) = take (k-1) t in (b :: a, r) in
        let (nb, rest) = take 4 l in
        let v = List.fold_right (fun b acc -> acc * 2 + (if b then 1 else 0)) nb 0 in
        v :: nibbles rest in
    let ns = List.rev (nibbles bl) in
    let s = String.concat "" (List.map (Printf.sprintf "%x") ns) in
    (* strip leading zeros *)
    let i = ref 0 in
    while !i < String.length s - 1 && s.[!i] = '0' do incr i done;
    String.sub s !i (String.length s - !i)

let bytes_of_hex (s : string) : n list =
  let l = String.length s / 2 in
  List.init l (fun i -> n_of_int (hexval s.[2*i] * 16 + hexval s.[2*i+1]))
let hex_of_bytes (l : n list) : string =
  String.concat "" (List.map (fun b -> Printf.sprintf "%02x" (int_of_n b)) l)

let bool_of_string_ s = (s = "1" || s = "true")
let string_of_bool_ b = if b then "1" else "0"

(* "k=v k=v ..." -> getter *)
let parse_fields (toks : string list) : (string -> string) =
  let tbl = Hashtbl.create 16 in
  List.iter (fun t ->
    match String.index_opt t '=' with
    | Some i -> Hashtbl.replace tbl (String.sub t 0 i) (String.sub t (i+1) (String.length t - i - 1))
    | None -> ()) toks;
  fun k -> match Hashtbl.find_opt tbl k with Some v -> v | None -> failwith ("missing field " ^ k)
let geti g k = int_of_string (g k)
let getn g k = n_of_int (int_of_string (g k))
let getb g k = bytes_of_hex (g k)
let getbool g k = bool_of_string_ (g k)
let split_list (s : string) : string list =  (* "[a,b,c]" or "a,b,c" *)
  let s = if String.length s >= 2 && s.[0] = '[' then String.sub s 1 (String.length s - 2) else s in
  if s = "" then [] else String.split_on_char ',' s

(* OCaml string <-> Coq string *)
let ascii_of_char c =
  let n = Char.code c in
  let b i = (n lsr i) land 1 = 1 in
  Ascii (b 0, b 1, b 2, b 3, b 4, b 5, b 6, b 7)
let coq_string_of (s : string) : cstring =
  let rec go i = if i >= String.length s then EmptyString else String (ascii_of_char s.[i], go (i + 1)) in go 0
let eui_dashed (v : n) : string =
  let h = hex_of_n v in
  let h = String.make (max 0 (16 - String.length h)) '0' ^ h in
  String.concat "-" (List.init 8 (fun i -> String.sub h (2 * i) 2))
