(* Property oracles over server histories: the specification (extracted spec functions over the
   model's pre-state, which equals the implementation's as long as the dumps agree) judges what the
   implementation was observed to do at each step. *)
open Lospan_model
type cstring = Lospan_model.string
type string = Stdlib.String.t
open Util
open Hist

let e = aes_enc

(* split "D[..] P[..] dump" *)
let split_obs o =
  try
    let i = String.index o ']' in
    let d = String.sub o 2 (i - 2) in
    let rest = String.sub o (i + 2) (String.length o - i - 2) in
    let j = String.index rest ']' in
    let p = String.sub rest 2 (j - 2) in
    let dump = if String.length rest > j + 2 then String.sub rest (j + 2) (String.length rest - j - 2) else "" in
    Some ((if d = "" then [] else String.split_on_char ';' d), (if p = "" then [] else String.split_on_char ';' p), dump)
  with _ -> None
let dump_of o =
  if String.length o >= 2 && (o.[0] = 'I' || o.[0] = 'S') then (try let i = String.index o ' ' in String.sub o (i + 1) (String.length o - i - 1) with Not_found -> "")
  else match split_obs o with Some (_, _, d) -> d | None -> o

(* per-device segments of a dump: eui -> "dev..;outbox..;inbox.." ; plus fb entries by dashed eui *)
let segments dump =
  let parts = Str.split (Str.regexp_string " ; ") dump in
  let tbl = Hashtbl.create 8 in
  List.iter (fun p ->
    match String.split_on_char ' ' p with
    | kind :: eui :: _ when kind = "dev" || kind = "outbox" || kind = "inbox" ->
      Hashtbl.replace tbl eui ((try Hashtbl.find tbl eui with Not_found -> "") ^ "|" ^ p)
    | _ ->
      if String.length p > 3 && String.sub p 0 3 = "fb{" then begin
        let inner = String.sub p 3 (String.length p - 4) in
        List.iter (fun ent -> if ent <> "" then
          let de = List.hd (String.split_on_char ' ' ent) in
          let eui = String.concat "" (String.split_on_char '-' de) in
          (* normalise to the hex form without leading zeros *)
          let eui = hex_of_n (n_of_hex eui) in
          Hashtbl.replace tbl eui ((try Hashtbl.find tbl eui with Not_found -> "") ^ "|fb " ^ ent)) (String.split_on_char ',' inner)
      end) parts;
  tbl

let registered_rows (s : srv) = List.filter_map (fun (_, st) -> st.ds_row) s.s_tab

(* devices that authenticate the frame according to the specification *)
let authentic_devs (s : srv) (raw : n list) : device list =
  match spec_decode raw with
  | None -> []
  | Some g ->
    let mt = int_of_n g.s_mtype in
    if int_of_n g.s_major <> 0 || (mt <> 2 && mt <> 4) then []
    else
      let n = List.length raw in
      let msg = List.filteri (fun i _ -> i < n - 4) raw in
      List.filter (fun r ->
        r.d_addr = g.s_addr && not (key_empty r.d_nwkskey) &&
        le_val (ref_mic e r.d_nwkskey N0 g.s_addr g.s_fcnt msg) = g.s_mic) (registered_rows s)

let is_join_typed raw = match raw with b :: _ -> int_of_n b / 32 = 0 | [] -> false

let debug = (try Sys.getenv "VERIF_JUDGE_DEBUG" <> "" with Not_found -> false)
let judge_c01 (_euis : n list) (steps : step list) : string =
  let prev = ref "" in
  let verdict = ref "ok" in
  let k = ref (-1) in
  List.iter (fun st ->
    incr k;
    let before = !verdict in
    let cur = dump_of st.impl_obs in
    (match st.ev with
     | Rx (rx, _, _) when !verdict = "ok" && not (is_join_typed rx.rx_raw) ->
       (match split_obs st.impl_obs with
        | None -> if st.impl_obs <> "" then verdict := "bad:shape"
        | Some (ds, ps, dump) ->
          let auth = authentic_devs st.pre rx.rx_raw in
          let auth_euis = List.map (fun r -> hex_of_n r.d_eui) auth in
          if auth = [] then begin
            if ds <> [] || ps <> [] || dump <> !prev then verdict := "bad:effect-without-authentic-frame"
          end else begin
            let a = segments !prev and b = segments dump in
            Hashtbl.iter (fun eui seg ->
              if not (List.mem eui auth_euis) && (try Hashtbl.find a eui with Not_found -> "") <> seg then
                verdict := "bad:effect-on-unverified-device") b;
            List.iter (fun p -> match String.split_on_char ':' p with
              | _ :: eui :: _ -> if not (List.mem eui auth_euis) then verdict := "bad:publish-for-unverified-device"
              | _ -> ()) ps
          end)
     | _ -> ());
    if debug && before = "ok" && !verdict <> "ok" then prerr_endline (Printf.sprintf "judge: step %d: %s\n  prev=%s\n  obs=%s" !k !verdict !prev st.impl_obs);
    prev := cur) steps;
  !verdict
