(* Property oracles over server histories: the specification (extracted spec functions over the
   model's pre-state, which equals the implementation's as long as the dumps agree) judges what the
   implementation was observed to do at each step. *)
open Lospan_model
type cstring = Lospan_model.string
type string = Stdlib.String.t
open Util
open Hist

let e = aes_enc

(* split "D[..] P[..] dump" *)
let split_obs o =
  try
    let i = String.index o ']' in
    let d = String.sub o 2 (i - 2) in
    let rest = String.sub o (i + 2) (String.length o - i - 2) in
    let j = String.index rest ']' in
    let p = String.sub rest 2 (j - 2) in
    let dump = if String.length rest > j + 2 then String.sub rest (j + 2) (String.length rest - j - 2) else "" in
    Some ((if d = "" then [] else String.split_on_char ';' d), (if p = "" then [] else String.split_on_char ';' p), dump)
  with _ -> None
let dump_of o =
  if String.length o >= 2 && (o.[0] = 'I' || o.[0] = 'S' || o.[0] = 'Z' || o.[0] = 'U') then (try let i = String.index o ' ' in String.sub o (i + 1) (String.length o - i - 1) with Not_found -> "")
  else match split_obs o with Some (_, _, d) -> d | None -> o

(* per-device segments of a dump: eui -> "dev..;outbox..;inbox.." ; plus fb entries by dashed eui *)
let segments dump =
  let parts = Str.split (Str.regexp_string " ; ") dump in
  let tbl = Hashtbl.create 8 in
  List.iter (fun p ->
    match String.split_on_char ' ' p with
    | kind :: eui :: _ when kind = "dev" || kind = "outbox" || kind = "inbox" ->
      Hashtbl.replace tbl eui ((try Hashtbl.find tbl eui with Not_found -> "") ^ "|" ^ p)
    | _ ->
      if String.length p > 3 && String.sub p 0 3 = "fb{" then begin
        let inner = String.sub p 3 (String.length p - 4) in
        List.iter (fun ent -> if ent <> "" then
          let de = List.hd (String.split_on_char ' ' ent) in
          let eui = String.concat "" (String.split_on_char '-' de) in
          (* normalise to the hex form without leading zeros *)
          let eui = hex_of_n (n_of_hex eui) in
          Hashtbl.replace tbl eui ((try Hashtbl.find tbl eui with Not_found -> "") ^ "|fb " ^ ent)) (String.split_on_char ',' inner)
      end) parts;
  tbl

let registered_rows (s : srv) = List.filter_map (fun (_, st) -> st.ds_row) s.s_tab

(* devices that authenticate the frame according to the specification *)
let authentic_devs (s : srv) (raw : n list) : device list =
  match spec_decode raw with
  | None -> []
  | Some g ->
    let mt = int_of_n g.s_mtype in
    if int_of_n g.s_major <> 0 || (mt <> 2 && mt <> 4) then []
    else
      let n = List.length raw in
      let msg = List.filteri (fun i _ -> i < n - 4) raw in
      List.filter (fun r ->
        r.d_addr = g.s_addr && not (key_empty r.d_nwkskey) &&
        le_val (ref_mic e r.d_nwkskey N0 g.s_addr g.s_fcnt msg) = g.s_mic) (registered_rows s)

let is_join_typed raw = match raw with b :: _ -> int_of_n b / 32 = 0 | [] -> false

let debug = (try Sys.getenv "VERIF_JUDGE_DEBUG" <> "" with Not_found -> false)
let judge_c01 (_euis : n list) (steps : step list) : string =
  let prev = ref "" in
  let verdict = ref "ok" in
  let k = ref (-1) in
  List.iter (fun st ->
    incr k;
    let before = !verdict in
    let cur = dump_of st.impl_obs in
    (match st.ev with
     | Rx (rx, _, _) when !verdict = "ok" && not (is_join_typed rx.rx_raw) ->
       (match split_obs st.impl_obs with
        | None -> if st.impl_obs <> "" then verdict := "bad:shape"
        | Some (ds, ps, dump) ->
          let auth = authentic_devs st.pre rx.rx_raw in
          let auth_euis = List.map (fun r -> hex_of_n r.d_eui) auth in
          if auth = [] then begin
            if ds <> [] || ps <> [] || dump <> !prev then verdict := "bad:effect-without-authentic-frame"
          end else begin
            let a = segments !prev and b = segments dump in
            Hashtbl.iter (fun eui seg ->
              if not (List.mem eui auth_euis) && (try Hashtbl.find a eui with Not_found -> "") <> seg then
                verdict := "bad:effect-on-unverified-device") b;
            List.iter (fun p -> match String.split_on_char ':' p with
              | _ :: eui :: _ -> if not (List.mem eui auth_euis) then verdict := "bad:publish-for-unverified-device"
              | _ -> ()) ps
          end)
     | _ -> ());
    if debug && before = "ok" && !verdict <> "ok" then prerr_endline (Printf.sprintf "judge: step %d: %s\n  prev=%s\n  obs=%s" !k !verdict !prev st.impl_obs);
    prev := cur) steps;
  !verdict

(* ---------- parsing the implementation's dumps ---------- *)
type ddump = { x_eui : string; x_addr : string; x_nwk : string; x_app : string; x_fup : int; x_fdn : int; x_inbox : string list;
               x_outbox : (int * bool * bool * int) list; x_nonces : string }
let kvs s = List.filter_map (fun t -> match String.index_opt t '=' with
    | Some i -> Some (String.sub t 0 i, String.sub t (i + 1) (String.length t - i - 1)) | None -> None) (String.split_on_char ' ' s)
let bracket s = (* "[a,b]" -> ["a";"b"] *)
  let s = String.trim s in
  if String.length s < 2 then [] else
  let inner = String.sub s 1 (String.length s - 2) in if inner = "" then [] else String.split_on_char ',' inner
let parse_dump dump : ddump list =
  let parts = Str.split (Str.regexp_string " ; ") dump in
  let devs = Hashtbl.create 8 in
  let order = ref [] in
  List.iter (fun p ->
    match String.split_on_char ' ' p with
    | "dev" :: eui :: _ ->
      let kv = kvs p in
      let g k = try List.assoc k kv with Not_found -> "" in
      if g "addr" <> "" then begin
        Hashtbl.replace devs eui { x_eui = eui; x_addr = g "addr"; x_nwk = g "nwk"; x_app = g "app"; x_fup = int_of_string (g "fup");
                                   x_fdn = int_of_string (g "fdn"); x_inbox = []; x_outbox = []; x_nonces = g "nonces" };
        order := eui :: !order end
    | "outbox" :: eui :: rest ->
      (try let dd = Hashtbl.find devs eui in
         let items = List.map (fun it -> match String.split_on_char ':' it with
             | [c; s; a; f] -> (int_of_string c, s = "1", a = "1", int_of_string f) | _ -> (0, false, false, 0)) (bracket (String.concat " " rest)) in
         Hashtbl.replace devs eui { dd with x_outbox = items } with Not_found -> ())
    | "inbox" :: eui :: rest ->
      (try let dd = Hashtbl.find devs eui in Hashtbl.replace devs eui { dd with x_inbox = bracket (String.concat " " rest) } with Not_found -> ())
    | _ -> ()) parts;
  List.rev_map (fun e -> Hashtbl.find devs e) !order

let find_dev l eui = List.find_opt (fun d -> d.x_eui = eui) l

let rec take k l = if k <= 0 then [] else match l with [] -> [] | x :: t -> x :: take (k - 1) t
let rec drop k l = if k <= 0 then l else match l with [] -> [] | _ :: t -> drop (k - 1) t
let frame_fcnt raw = match spec_decode raw with Some g -> Some (int_of_n g.s_fcnt) | None -> None

(* C03: per device and session, the counters of recorded uplinks strictly increase *)
let judge_c03 (_euis : n list) (steps : step list) : string =
  let verdict = ref "ok" in
  let prev = ref [] in
  let last : (string, int) Hashtbl.t = Hashtbl.create 8 in   (* eui|nwk -> last recorded counter *)
  let strict = Hashtbl.create 8 in
  (match steps with
   | st :: _ -> List.iter (fun (eui, ds) -> match ds.ds_row with Some r -> Hashtbl.replace strict (hex_of_n eui) (not r.d_relaxed) | None -> ()) st.pre.s_tab
   | [] -> ());
  List.iter (fun st ->
    let cur = parse_dump (dump_of st.impl_obs) in
    (match st.ev with
     | Rx (rx, _, _) when !verdict = "ok" ->
       List.iter (fun d ->
         match find_dev !prev d.x_eui with
         | Some p when List.length d.x_inbox > List.length p.x_inbox ->
           if List.length d.x_inbox > List.length p.x_inbox + 1 then verdict := "bad:recorded-twice-in-one-step"
           else if (try Hashtbl.find strict d.x_eui with Not_found -> false) then begin
             match frame_fcnt rx.rx_raw with
             | None -> verdict := "bad:recorded-undecodable"
             | Some c ->
               let key = d.x_eui ^ "|" ^ p.x_nwk in
               if c < p.x_fup then verdict := "bad:recorded-below-expected-counter"
               else (match Hashtbl.find_opt last key with
                   | Some l when l < 65535 && c <= l -> verdict := "bad:counter-recorded-twice"
                   | _ -> ());
               if c < 65535 && d.x_fup <> c + 1 && d.x_nwk = p.x_nwk then verdict := "bad:expected-counter-not-past-recorded";
               Hashtbl.replace last key c
           end
         | _ -> ()) cur
     | _ -> ());
    if cur <> [] then prev := cur) steps;
  !verdict

(* attribute a data downlink to the device whose keys verify it (reference device) *)
let owner_of (devs : ddump list) (raw : n list) =
  List.find_opt (fun d ->
    match ref_on_downlink e (bytes_of_hex d.x_nwk) (bytes_of_hex d.x_app) (n_of_hex d.x_addr) raw with Some _ -> true | None -> false) devs

(* C07: (session key, downlink counter) pairs are never reused *)
let judge_c07 (_euis : n list) (steps : step list) : string =
  let verdict = ref "ok" in
  let prev = ref [] in
  let seen : (string, unit) Hashtbl.t = Hashtbl.create 16 in
  List.iter (fun st ->
    let cur = parse_dump (dump_of st.impl_obs) in
    (match st.ev with
     | Rx _ when !verdict = "ok" ->
       (match split_obs st.impl_obs with
        | Some (ds, _, _) ->
          List.iter (fun dstr ->
            let raw = bytes_of_hex (List.hd (String.split_on_char ':' dstr)) in
            match raw with
            | b0 :: _ when int_of_n b0 / 32 = 1 && List.length raw = 17 ->
              (* a join-accept left: the new session starts with downlink counter 0 *)
              (match st.ev with
               | Rx (rx, _, _) when List.length rx.rx_raw = 23 ->
                 let deveui = hex_of_n (le_val (take 8 (drop 9 rx.rx_raw))) in
                 (match find_dev cur deveui with
                  | Some d' when d'.x_fdn <> 0 -> verdict := "bad:downlink-counter-not-zero-after-join"
                  | _ -> ())
               | _ -> ())
            | b0 :: _ when (int_of_n b0 / 32 = 3 || int_of_n b0 / 32 = 5) ->
              (* keys as stored before the step (the session the frame belongs to) *)
              (match owner_of !prev raw with
               | None -> verdict := "bad:downlink-verifies-under-no-device"
               | Some d ->
                 let c = match frame_fcnt raw with Some c -> c | None -> -1 in
                 let key = d.x_nwk ^ "|" ^ string_of_int c in
                 if Hashtbl.mem seen key then verdict := "bad:downlink-counter-reused"
                 else begin
                   Hashtbl.replace seen key ();
                   if c <> d.x_fdn then verdict := "bad:downlink-counter-not-stored-value"
                   else (match find_dev cur d.x_eui with
                       | Some d' when d'.x_fdn <> (c + 1) land 0xffff -> verdict := "bad:downlink-counter-not-advanced"
                       | _ -> ())
                 end)
            | _ -> ()) ds
        | None -> ())
     | _ -> ());
    if cur <> [] then prev := cur) steps;
  !verdict

(* ---------- C04 / C05: join-requests, judged by the reference device ---------- *)

(* the registered device a 23-byte join-request names, and whether the specification honours it *)
let spec_join (s : srv) (raw : n list) =
  if List.length raw <> 23 then None
  else match raw with
    | b0 :: _ when int_of_n b0 / 32 = 0 && int_of_n b0 mod 4 = 0 ->
      let appeui = le_val (take 8 (drop 1 raw)) and deveui = le_val (take 8 (drop 9 raw)) in
      let dn2 = take 2 (drop 17 raw) in
      (match (dt_get s.s_tab deveui).ds_row with
       | None -> None
       | Some r ->
         let mic_ok = mic4 e r.d_appkey (take 19 raw) = drop 19 raw in
         let nonce = int_of_n (le_val (List.rev dn2)) in
         let used = List.exists (fun x -> int_of_n x = nonce) (dt_get s.s_tab deveui).ds_nonces in
         if mic_ok && r.d_appeui = appeui && List.mem appeui s.s_apps && (s.s_cfg.cfg_disable_nonce_check || not used)
         then Some (r, dn2) else None)
    | _ -> None

let judge_join ~(c05 : bool) (_euis : n list) (steps : step list) : string =
  let verdict = ref "ok" in
  let prev = ref [] and prev_dump = ref "" in
  List.iter (fun st ->
    let dump = dump_of st.impl_obs in
    let cur = parse_dump dump in
    (match st.ev with
     | Rx (rx, _, _) when !verdict = "ok" && is_join_typed rx.rx_raw ->
       (match split_obs st.impl_obs with
        | None -> ()
        | Some (ds, ps, _) ->
          (match spec_join st.pre rx.rx_raw with
           | None ->
             (* forged / altered / reused nonce / unknown device: no effect, no answer *)
             if ds <> [] || ps <> [] then verdict := (if c05 then "bad:reused-nonce-or-forged-join-answered" else "bad:forged-join-answered")
             else if dump <> !prev_dump then verdict := (if c05 then "bad:refused-join-changed-state" else "bad:forged-join-changed-state")
           | Some (r, dn2) ->
             let eui = hex_of_n r.d_eui in
             (match ds with
              | [one] ->
                let ja = bytes_of_hex (List.hd (String.split_on_char ':' one)) in
                let rx1 = List.nth (String.split_on_char ':' one) 1 in
                (match ref_on_join_accept e r.d_appkey dn2 ja with
                 | None -> verdict := "bad:join-accept-not-decodable-by-device"
                 | Some ((addr, nwk), app) ->
                   (match find_dev cur eui with
                    | None -> verdict := "bad:shape"
                    | Some d ->
                      if rx1 <> "5" then verdict := "bad:join-accept-rx1-delay"
                      else if n_of_hex d.x_addr <> addr || d.x_nwk <> hex_of_bytes nwk || d.x_app <> hex_of_bytes app then
                        verdict := "bad:stored-session-differs-from-join-accept"
                      else if d.x_fup <> 0 || d.x_fdn <> 0 then verdict := "bad:counters-not-zero-after-join"))
              | [] -> verdict := "bad:valid-join-not-answered"
              | _ -> verdict := "bad:join-answered-more-than-once")))
     | (Rx _ | Sub _) when !verdict = "ok" ->
       (* keys only change through an honoured join *)
       List.iter (fun d -> match find_dev !prev d.x_eui with
           | Some p when p.x_nwk <> d.x_nwk || p.x_app <> d.x_app || p.x_addr <> d.x_addr -> verdict := "bad:session-changed-without-join"
           | _ -> ()) cur
     | _ -> ());
    if cur <> [] then (prev := cur; prev_dump := dump)) steps;
  !verdict
let judge_c04 = judge_join ~c05:false
let judge_c05 = judge_join ~c05:true

(* ---------- C02 / C06 / C08 / C09: uplink delivery and the downlink queue ---------- *)
let dev_state (s : srv) (eui : n) = dt_get s.s_tab eui
let sframe_of raw = spec_decode raw
let accepted_devs prev cur = List.filter_map (fun d -> match find_dev prev d.x_eui with
    | Some p when List.length d.x_inbox > List.length p.x_inbox -> Some d.x_eui | _ -> None) cur

(* the message the specification expects to be transmitted to device st on an accepted uplink *)
let expected_message (st : dstate) (ack_flag : bool) : dmsg option =
  let cands = List.filter (fun m -> m.m_sent = N0 || ((not ack_flag) && m.m_ack && m.m_acktime = N0)) st.ds_outbox in
  match List.stable_sort (fun a b -> cmp_n a.m_created b.m_created) cands with m :: _ -> Some m | [] -> None

let data_downlinks ds = List.filter_map (fun dstr ->
    let raw = bytes_of_hex (List.hd (String.split_on_char ':' dstr)) in
    match raw with b0 :: _ when (int_of_n b0 / 32 = 3 || int_of_n b0 / 32 = 5) -> Some raw | _ -> None) ds

let rec is_prefix a b = match a, b with [], _ -> true | x :: s, y :: t -> x = y && is_prefix s t | _ -> false

type which = J02 | J06 | J08 | J09

let judge_queue (w : which) (_euis : n list) (steps : step list) : string =
  let verdict = ref "ok" in
  let stepno = ref (-1) in
  let bad c = if !verdict = "ok" then (verdict := "bad:" ^ c; if debug then prerr_endline (Printf.sprintf "judge: step %d: %s" !stepno c)) in
  let prev = ref [] in
  let tx_count : (string, int) Hashtbl.t = Hashtbl.create 16 in   (* eui|created -> transmissions *)
  List.iter (fun st ->
    incr stepno;
    let cur = parse_dump (dump_of st.impl_obs) in
    (match st.ev with
     | Rx (rx, _, _) when !verdict = "ok" && not (is_join_typed rx.rx_raw) ->
       (match split_obs st.impl_obs, sframe_of rx.rx_raw with
        | Some (ds, ps, _), g ->
          let auth = authentic_devs st.pre rx.rx_raw in
          let accepted = accepted_devs !prev cur in
          let downs = data_downlinks ds in
          let up_ack = match g with Some g -> s_ack g | None -> false in
          let up_conf = match g with Some g -> int_of_n g.s_mtype = 4 | None -> false in
          (* C02: every conformant frame for an application port is accepted and delivered exactly *)
          if w = J02 then begin
            match g with
            | Some g when (match g.s_port with Some p -> int_of_n p >= 1 && int_of_n p <= 223 | None -> false) ->
              List.iter (fun r ->
                let eui = hex_of_n r.d_eui in
                match find_dev !prev eui with
                | Some p when (r.d_relaxed || int_of_n g.s_fcnt >= p.x_fup) ->
                  let plain = hex_of_bytes (ref_crypt e r.d_appskey N0 g.s_addr g.s_fcnt g.s_payload) in
                  (match find_dev cur eui with
                   | Some d ->
                     if List.length d.x_inbox <> List.length p.x_inbox + 1 then bad "conformant-uplink-not-recorded-once"
                     else if not (let ent = List.nth d.x_inbox (List.length d.x_inbox - 1) in
                                  let pl = List.hd (String.split_on_char '@' ent) in pl = "#" ^ plain) then bad "recorded-payload-differs-from-device-plaintext"
                     else if (let ent = List.nth d.x_inbox (List.length d.x_inbox - 1) in
                              match String.split_on_char '@' ent with
                              | [_; meta] ->
                                meta <> Printf.sprintf "%s:%d:%d:868.100:%s:%s" (hex_of_n rx.rx_gw.g_eui) (int_of_z rx.rx_radio.r_rssi)
                                  ((int_of_n rx.rx_radio.r_snr - 1000) * 1000) (ocaml_string_of rx.rx_radio.r_datr) (hex_of_n r.d_addr)
                              | _ -> true) then bad "recorded-reception-metadata-differs"
                     else if not (List.exists (fun pstr -> match String.split_on_char ':' pstr with
                         | [app; e2; pl; gw] -> e2 = eui && pl = plain && n_of_hex gw = rx.rx_gw.g_eui && n_of_hex app = r.d_appeui | _ -> false) ps)
                     then bad "payload-not-published-to-application"
                   | None -> ())
                | _ -> ()) auth
            | _ -> ()
          end;
          (* attribute every data downlink to a device by its keys as they were before the step *)
          (* among devices sharing address and network key, prefer the one whose uplink was accepted *)
          let pref = List.filter (fun d -> List.mem d.x_eui accepted) !prev @ List.filter (fun d -> not (List.mem d.x_eui accepted)) !prev in
          let owners = List.map (fun raw -> (raw, owner_of pref raw)) downs in
          (* C02, conversely: what the library encodes follows the specification - a conformant device holding
             the keys of some registered device accepts it (header layout, direction bit, key choice, keystream, MIC) *)
          if w = J02 then
            List.iter (fun (_, o) -> if o = None then bad "emitted-downlink-not-readable-by-a-conformant-device") owners;
          if w = J06 || w = J09 || w = J08 then
            List.iter (fun (_, o) -> match o with
                | None -> bad "downlink-verifies-under-no-device-key"
                | Some d ->
                  (* a twin (same address and key) of an accepted device is indistinguishable on the air *)
                  let twin_accepted = List.exists (fun x -> x.x_nwk = d.x_nwk && x.x_addr = d.x_addr && List.mem x.x_eui accepted) !prev in
                  if not (List.mem d.x_eui accepted || twin_accepted) then bad "downlink-without-accepted-uplink-of-that-device") owners;
          List.iter (fun eui ->
            let mine = List.filter (fun (_, o) -> match o with Some d -> d.x_eui = eui | None -> false) owners in
            (* devices sharing address and key cannot be told apart on the air: attribute per device *)
            let twins = List.length (List.filter (fun d -> match find_dev !prev eui with
                | Some me -> d.x_nwk = me.x_nwk && d.x_addr = me.x_addr && List.mem d.x_eui accepted | None -> false) !prev) in
            if List.length mine > max 1 twins then bad "more-than-one-downlink-per-uplink";
            if twins <= 1 then begin
            let stp = dev_state st.pre (n_of_hex eui) in
            let exp = expected_message stp up_ack in
            (match mine with
             | [(raw, Some d)] ->
               (match ref_on_downlink e (bytes_of_hex d.x_nwk) (bytes_of_hex d.x_app) (n_of_hex d.x_addr) raw with
                | Some ((((mt, ackbit), _fc), port), plain) ->
                  if w = J09 && up_conf && not ackbit then bad "confirmed-uplink-answered-without-ACK";
                  if w = J09 && (not up_conf) && ackbit then bad "ACK-flag-repeated-on-answer-to-unconfirmed-uplink";
                  (match port, exp with
                   | Some p, Some m when plain <> [] ->
                     if w = J06 || w = J08 then begin
                       if not (is_prefix plain m.m_data) then bad "downlink-payload-is-not-the-oldest-pending-message"
                       else if p <> m.m_port then bad "downlink-port-differs-from-queued-port"
                       else if (int_of_n mt = 5) <> m.m_ack then bad "confirmed-type-differs-from-ack-request"
                     end;
                     let key = eui ^ "|" ^ hex_of_n m.m_created in
                     let c = (try Hashtbl.find tx_count key with Not_found -> 0) + 1 in
                     Hashtbl.replace tx_count key c;
                     if w = J08 && c > 1 && not m.m_ack then bad "unconfirmed-message-transmitted-twice"
                   | Some _, None when plain <> [] -> if w = J06 || w = J08 then bad "payload-transmitted-with-empty-queue"
                   | _ -> ())
                | None -> ())
             | [] ->
               if w = J09 && up_conf then bad "confirmed-uplink-not-answered";
               if (w = J08 || w = J06) && exp <> None && (match exp with Some m -> int_of_n m.m_port >= 1 && int_of_n m.m_port <= 223 && m.m_data <> [] | None -> false)
                  && max_payload rx.rx_radio.r_datr <> None then bad "pending-message-not-transmitted"
             | _ -> ()) end) accepted;
          (* C08: outbox bookkeeping *)
          if w = J08 then
            List.iter (fun d -> match find_dev !prev d.x_eui with
                | Some p ->
                  List.iter (fun (c, s, a, _) -> match List.find_opt (fun (c2, _, _, _) -> c2 = c) p.x_outbox with
                      | Some (_, s0, a0, _) ->
                        if a && not a0 then begin
                          if not (List.mem d.x_eui accepted && up_ack) then bad "acknowledged-without-ACK-uplink"
                          else if not s0 then bad "acknowledged-before-transmission"
                        end;
                        if s && not s0 && not (List.mem d.x_eui accepted) then bad "reported-sent-without-accepted-uplink"
                      | None -> ()) d.x_outbox
                | None -> ()) cur
        | _ -> ())
     | _ -> ());
    if cur <> [] then prev := cur) steps;
  !verdict
let judge_c02 = judge_queue J02
let judge_c06 = judge_queue J06
let judge_c08 = judge_queue J08
let judge_c09 = judge_queue J09


(* ---- C17 (pipeline side): whatever downlink answers an uplink is handed to the gateway interface for the gateway that
   reported that uplink, with that gateway's clock, the uplink's data rate, channel, RF chain and frequency, and the RX1 delay
   of its frame type (five seconds for a join-accept, one for data). ---- *)
let judge_c17 (_euis : n list) (steps : step list) : string =
  let verdict = ref "ok" in
  List.iter (fun st ->
    match st.ev with
    | Rx (rx, _, _) when !verdict = "ok" ->
      (match split_obs st.impl_obs with
       | None -> ()
       | Some (ds, _, _) ->
         List.iter (fun dstr ->
           match String.split_on_char ':' dstr with
           | [rawhex; delay; gw; clock; datr; chan; rfch; fsame] ->
             let mt = (match bytes_of_hex rawhex with b0 :: _ -> int_of_n b0 / 32 | [] -> -1) in
             if n_of_hex gw <> rx.rx_gw.g_eui then verdict := "bad:downlink-for-another-gateway-than-the-uplink's"
             else if int_of_string clock <> int_of_n rx.rx_gw.g_clock then verdict := "bad:downlink-timed-from-another-clock-than-the-uplink's"
             else if datr <> ocaml_string_of rx.rx_radio.r_datr then verdict := "bad:downlink-data-rate-is-not-the-uplink's"
             else if int_of_string chan <> int_of_n rx.rx_radio.r_chan || rfch <> "0" then verdict := "bad:downlink-channel-is-not-the-uplink's"
             else if fsame <> "1" then verdict := "bad:downlink-frequency-is-not-the-uplink's"
             else if (mt = 1 && delay <> "5") || ((mt = 3 || mt = 5) && delay <> "1") then verdict := "bad:rx1-delay-does-not-follow-the-frame-type"
           | _ -> verdict := "bad:downlink-shape") ds)
    | _ -> ()) steps;
  !verdict

(* ---- C10: crashes and failed writes. The steps cut short are judged like ordinary deliveries by the
   counter oracles (C03: a strict device's recorded counters strictly increase; C07: a (session key,
   downlink counter) pair is never used twice), and a DevNonce that led to a join-accept is never
   honoured again while the nonce check is on. ---- *)
let as_rx (st : step) = match st.ev with Crash (rx, an, na, _, _) -> { st with ev = Rx (rx, an, na) } | _ -> st
let judge_nonce_once (steps : step list) : string =
  let verdict = ref "ok" in
  let seen : (string, unit) Hashtbl.t = Hashtbl.create 8 in
  List.iter (fun st ->
    match st.ev with
    | Rx (rx, _, _) when not st.pre.s_cfg.cfg_disable_nonce_check ->
      (match split_obs st.impl_obs with
       | Some (ds, _, _) ->
         let accepts = List.filter (fun dstr -> let raw = bytes_of_hex (List.hd (String.split_on_char ':' dstr)) in
                                     match raw with b0 :: _ -> int_of_n b0 / 32 = 1 && List.length raw = 17 | [] -> false) ds in
         if accepts <> [] && List.length rx.rx_raw = 23 then begin
           let key = hex_of_bytes (List.filteri (fun i _ -> i >= 9 && i <= 18) rx.rx_raw) in   (* DevEUI | DevNonce *)
           if Hashtbl.mem seen key then verdict := "bad:devnonce-honoured-twice" else Hashtbl.replace seen key ()
         end
       | None -> ())
    | _ -> ()) steps;
  !verdict
let judge_c10 (euis : n list) (steps : step list) : string =
  let steps = List.map as_rx steps in
  let v = judge_c03 euis steps in
  if v <> "ok" then v else
  let v = judge_c07 euis steps in
  if v <> "ok" then v else judge_nonce_once steps


(* ---- forced schedules of two frames of one device: the clauses "however the copies arrive ... concurrently" ---- *)
let judge_sched (which : string) g (obs : string) (pre : srv) (eui : n) : string =
  match split_obs obs with
  | None -> "bad:sched-unreadable-observation"
  | Some (ds, _, dump) ->
    let devs = parse_dump dump in
    let dv = match find_dev devs (hex_of_n eui) with Some d -> d | None -> failwith "device missing from dump" in
    let pre_row = match (dt_get pre.s_tab eui).ds_row with Some r -> r | None -> failwith "no row" in
    let kind = g "kind" in
    let raws = List.map (fun dstr -> bytes_of_hex (List.hd (String.split_on_char ':' dstr))) ds in
    let data_downs = List.filter (fun raw -> match raw with b0 :: _ -> (int_of_n b0 / 32 = 3 || int_of_n b0 / 32 = 5) | [] -> false) raws in
    let accepts = List.filter (fun raw -> match raw with b0 :: _ -> int_of_n b0 / 32 = 1 | [] -> false) raws in
    let fcnts = List.filter_map frame_fcnt data_downs in
    let dup l = List.length (List.sort_uniq compare l) <> List.length l in
    let uplink_fcnt tag = match parse_event (g tag) with Rx (rx, _, _) -> frame_fcnt rx.rx_raw | _ -> None in
    (* where in the performed order each handler did what: positions of "<thread>:<operation>" in trace{...} *)
    let tr = (try let i = Str.search_forward (Str.regexp_string "trace{") obs 0 in
                let j = String.index_from obs i '}' in
                let inner = String.sub obs (i + 6) (j - i - 6) in if inner = "" then [] else String.split_on_char ',' inner
              with Not_found -> []) in
    let first_pos th op = let rec go i = function [] -> max_int | x :: t -> if x = th ^ ":" ^ op then i else go (i + 1) t in go 0 tr in
    let last_pos th op = let rec go i best = function [] -> best | x :: t -> go (i + 1) (if x = th ^ ":" ^ op then i else best) t in go 0 (-1) tr in
    (* the recorded race: each handler read the device row before the other had stored the advanced counter or
       recorded the frame *)
    let each_read_before_the_other_wrote =
      List.for_all (fun (x, y) -> first_pos x "GetDevice" < first_pos y "AdvanceFCntUp" && first_pos x "GetDevice" < first_pos y "CreateUpstreamMessage")
        [("0", "1"); ("1", "0")] in
    (* ... and for downlink counters: the later reader read before the other's encoder stored its counter *)
    let snapshots_overlap =
      List.exists (fun (x, y) -> first_pos x "GetDevice" < last_pos y "NextFCntDn" && first_pos y "GetDevice" < last_pos x "NextFCntDn")
        [("0", "1")] in
    (* a join handled while a frame of the previous session is still being worked on: the new session starts with both
       counters at zero, whatever the old session's straggler does *)
    let rejoined = kind = "rejoin" && accepts <> [] && dv.x_nwk <> hex_of_bytes pre_row.d_nwkskey in
    if rejoined && (which = "C03" || which = "C05") && dv.x_fup <> 0 then "bad:sched-new-session-uplink-counter-moved-by-old-session-frame" else
    if rejoined && (which = "C07" || which = "C05") && dv.x_fdn <> 0 then "bad:sched-new-session-downlink-counter-moved-by-old-session-frame" else
    (match which with
     | "C03" ->
       if kind = "copies" && List.length dv.x_inbox > 1 then
         (if each_read_before_the_other_wrote then "bad:sched-copies-recorded-twice" else "bad:sched-copy-recorded-after-the-other-was-stored")
       else (match uplink_fcnt "f1", uplink_fcnt "f2" with
           | Some a, Some b when not pre_row.d_relaxed ->
             (* the expected counter ends past every recorded counter *)
             let recorded = List.length dv.x_inbox in
             let top = if kind = "copies" then a else if recorded >= 2 then max a b else -1 in
             if top >= 0 && top < 65535 && recorded > 0 && dv.x_fup <= top then "bad:sched-expected-counter-regressed" else "ok"
           | _ -> "ok")
     | "C07" ->
       if dup fcnts then (if snapshots_overlap then "bad:sched-downlink-counter-reused" else "bad:sched-downlink-counter-reused-without-overlap")
       else if not rejoined && List.length fcnts > 0 && dv.x_fdn <> (int_of_n pre_row.d_fdn + List.length fcnts) land 0xffff then
         (if snapshots_overlap then "bad:sched-stored-downlink-counter-put-back" else "bad:sched-downlink-counter-not-advanced-per-frame")
       else "ok"
     | "C09" ->
       if kind = "copies" && List.length data_downs > 1 then
         (if each_read_before_the_other_wrote then "bad:sched-copies-answered-twice" else "bad:sched-copy-answered-after-the-other-was-stored")
       else "ok"
     | "C04" ->
       (* two join-requests for one device handled at the same time, at most one of them genuine: a forged one leaves no
          trace (its DevNonce is not recorded), and every join-accept answers a genuine one (a conformant device holding
          that request's DevNonce decodes it to the stored session) *)
       let raws_in = List.filter_map (fun tag -> match parse_event (g tag) with Rx (rx, _, _) -> Some rx.rx_raw | _ -> None) ["f1"; "f2"] in
       let genuine = List.filter_map (fun raw -> match spec_join pre raw with Some (_, dn2) -> Some dn2 | None -> None) raws_in in
       let forged_nonces = List.filter_map (fun raw -> match spec_join pre raw with
           | None when List.length raw = 23 -> Some (string_of_int (int_of_n (le_val (List.rev (take 2 (drop 17 raw))))))
           | _ -> None) raws_in in
       let stored = bracket dv.x_nonces in
       if List.exists (fun nn -> List.mem nn stored) forged_nonces then "bad:sched-forged-join-recorded-its-nonce"
       else if List.length accepts > List.length genuine then "bad:sched-forged-join-answered"
       else if List.exists (fun ja -> not (List.exists (fun dn2 -> match ref_on_join_accept e pre_row.d_appkey dn2 ja with
           | Some ((addr, nwk), app) -> hex_of_bytes nwk = dv.x_nwk && hex_of_bytes app = dv.x_app && hex_of_n addr = dv.x_addr
           | None -> false) genuine)) accepts then "bad:sched-join-accept-answers-no-genuine-request"
       else if genuine = [] && (dv.x_nwk <> hex_of_bytes pre_row.d_nwkskey || stored <> []) then "bad:sched-forged-join-changed-state"
       else "ok"
     | "C06" ->
       (* each frame that leaves carries one queued message: its bytes, its port, its confirmation request *)
       let queued = (dt_get pre.s_tab eui).ds_outbox in
       let verdicts = List.map (fun raw ->
           match ref_on_downlink e pre_row.d_nwkskey pre_row.d_appskey pre_row.d_addr raw with
           | None -> if rejoined then "ok" else "bad:sched-downlink-verifies-under-no-device-key"
           | Some ((((mt, _ackbit), _fc), port), plain) ->
             if plain = [] then "ok"
             else (match port with
                 | Some p when List.exists (fun m -> m.m_data = plain && m.m_port = p && (int_of_n mt = 5) = m.m_ack) queued -> "ok"
                 | Some p when List.exists (fun m -> m.m_port = p) queued -> "bad:sched-downlink-payload-is-not-the-queued-message-of-its-port"
                 | _ -> "bad:sched-downlink-payload-is-not-a-queued-message")) data_downs in
       (match List.filter (fun v -> v <> "ok") verdicts with v :: _ -> v | [] -> "ok")
     | "C17" ->
       (* a join-accept leaves with the five-second delay, a data frame with the one-second delay - whichever handler sends it *)
       let wrong = List.exists (fun dstr -> match String.split_on_char ':' dstr with
           | rawhex :: delay :: _ ->
             (match bytes_of_hex rawhex with
              | b0 :: _ -> let mt = int_of_n b0 / 32 in
                if mt = 1 then delay <> "5" else if mt = 3 || mt = 5 then delay <> "1" else false
              | [] -> false)
           | _ -> true) ds in
       if wrong then "bad:sched-rx1-delay-does-not-follow-the-frame-type" else "ok"
     | "C05" ->
       if List.length accepts > 1 then "bad:sched-devnonce-honoured-twice"
       else if List.length accepts = 1 then begin
         (* the stored session is the one the accept conveys *)
         let raw1 = match parse_event (g "f1") with Rx (rx, _, _) -> rx.rx_raw | _ -> [] in
         let dn2 = take 2 (drop 17 raw1) in
         match ref_on_join_accept e pre_row.d_appkey dn2 (List.hd accepts) with
         | Some ((addr, nwk), app) ->
           if hex_of_bytes nwk = dv.x_nwk && hex_of_bytes app = dv.x_app && hex_of_n addr = dv.x_addr then "ok"
           else "bad:sched-stored-session-differs-from-accept"
         | None -> "bad:sched-accept-not-decodable-by-device"
       end
       else "ok"
     | _ -> "ok")


(* two devices sharing an address, a confirmed uplink each inside one receive window: each is answered once, with
   the ACK flag, by a frame that verifies under its own keys *)
let judge_window2 (obs : string) (pre : srv) : string =
  match split_obs obs with
  | None -> "bad:sched-unreadable-observation"
  | Some (ds, _, _) ->
    let raws = List.filter_map (fun dstr -> match bytes_of_hex (List.hd (String.split_on_char ':' dstr)) with
        | (b0 :: _) as raw when (int_of_n b0 / 32 = 3 || int_of_n b0 / 32 = 5) -> Some raw | _ -> None) ds in
    let rows = registered_rows pre in
    let answers r = List.filter (fun raw -> match ref_on_downlink e r.d_nwkskey r.d_appskey r.d_addr raw with Some _ -> true | None -> false) raws in
    let acked r = List.for_all (fun raw -> match ref_on_downlink e r.d_nwkskey r.d_appskey r.d_addr raw with
        | Some ((((_, ackbit), _), _), _) -> ackbit | None -> true) (answers r) in
    if List.exists (fun r -> List.length (answers r) = 0) rows then "bad:window-confirmed-uplink-not-answered"
    else if List.exists (fun r -> List.length (answers r) > 1) rows then "bad:window-uplink-answered-twice"
    else if not (List.for_all acked rows) then "bad:window-confirmed-uplink-answered-without-ACK"
    else "ok"
