(* C18: registry and message store. Parses the operation text of a case, runs the extracted
   storage model (c_step, encoded tables) and the extracted abstract registry (a_step), and
   renders results in the harness's canonical text. *)
open Lospan_model
open Util

let pad16 h = String.make (max 0 (16 - String.length h)) '0' ^ h
let pad8 h = String.make (max 0 (8 - String.length h)) '0' ^ h
let eui_of s = n_of_hex s
let i64_of s = eui_to_int64 (n_of_hex s)              (* 16 hex digits, two's complement *)
let r_eui e = pad16 (hex_of_n e)
let r_i64 z = pad16 (hex_of_n (eui_from_int64 z))
let txt_of s = if s = "-" then [] else bytes_of_hex s
let r_txt l = if l = [] then "-" else hex_of_bytes l
let r_b b = if b then "1" else "0"
let b_of s = (s = "1")
let n_of s = n_of_int (int_of_string s)
let z_of s = z_of_int (int_of_string s)
let r_n v = string_of_int (int_of_n v)
let r_z v = string_of_int (int_of_z v)

let r_app a = "app(" ^ r_eui a.ap_eui ^ "," ^ r_txt a.ap_tag ^ ")"
let r_dev (d, nonces) =
  let ns = List.sort compare (List.map int_of_n nonces) in
  Printf.sprintf "dev(%s,%s,%s,%s,%s,%s,%s,%s,%s,%s,%s,%s,%s)" (r_eui d.rd_eui) (pad8 (hex_of_n d.rd_addr))
    (hex_of_bytes d.rd_appkey) (hex_of_bytes d.rd_appskey) (hex_of_bytes d.rd_nwkskey) (r_eui d.rd_app) (r_n d.rd_state)
    (r_n d.rd_fup) (r_n d.rd_fdn) (r_b d.rd_relaxed) (r_b d.rd_kw) (r_txt d.rd_tag)
    (String.concat "+" (List.map string_of_int ns))
let r_gw g = Printf.sprintf "gw(%s,%s,%s,%s,%s,%s)" (r_eui g.gw_eui) (r_z g.gw_lat) (r_z g.gw_lon) (r_z g.gw_alt) (r_txt g.gw_ip) (r_b g.gw_strict)
let r_up m = Printf.sprintf "up(%s,%s,%s,%s,%s,%s,%s,%s,%s)" (r_eui m.up_eui) (r_i64 m.up_ts) (r_txt m.up_data) (r_eui m.up_gw)
    (r_z m.up_rssi) (r_z m.up_snr) (r_z m.up_freq) (r_txt m.up_datr) (pad8 (hex_of_n m.up_addr))
let r_down m = Printf.sprintf "down(%s,%s,%s,%s,%s,%s,%s,%s)" (r_eui m.dn_eui) (r_txt m.dn_data) (r_n m.dn_port) (r_b m.dn_ack)
    (r_i64 m.dn_created) (r_i64 m.dn_sent) (r_i64 m.dn_acktime) (r_n m.dn_fcnt)
let sorted f l = String.concat ";" (List.sort compare (List.map f l))
let r_res = function
  | ROk -> "ok" | RNotFound -> "nf" | RFailed -> "err"
  | RApp a -> r_app a | RApps l -> "apps[" ^ sorted r_app l ^ "]"
  | RDev (d, n) -> r_dev (d, n) | RDevs l -> "devs[" ^ sorted r_dev l ^ "]"
  | RGw g -> r_gw g | RGws l -> "gws[" ^ sorted r_gw l ^ "]"
  | RUps l -> "ups[" ^ String.concat ";" (List.map r_up l) ^ "]"
  | RDowns l -> "downs[" ^ String.concat ";" (List.map r_down l) ^ "]"
  | RCnt c -> "cnt:" ^ r_n c

let dev_of s = match String.split_on_char ',' s with
  | e :: a :: k1 :: k2 :: k3 :: ap :: st :: fu :: fd :: rl :: kw :: tag :: _history ->
    { rd_eui = eui_of e; rd_addr = n_of_hex a; rd_appkey = bytes_of_hex k1; rd_appskey = bytes_of_hex k2; rd_nwkskey = bytes_of_hex k3;
      rd_app = eui_of ap; rd_state = n_of st; rd_fup = n_of fu; rd_fdn = n_of fd; rd_relaxed = b_of rl; rd_kw = b_of kw; rd_tag = txt_of tag }
  | _ -> failwith ("dev: " ^ s)
let gw_of s = match String.split_on_char ',' s with
  | [e; la; lo; al; ip; st] -> { gw_eui = eui_of e; gw_lat = z_of la; gw_lon = z_of lo; gw_alt = z_of al; gw_ip = txt_of ip; gw_strict = b_of st }
  | _ -> failwith ("gw: " ^ s)
let up_of s = match String.split_on_char ',' s with
  | [e; ts; d; g; rssi; snr; fr; dr; a] ->
    { up_eui = eui_of e; up_ts = i64_of ts; up_data = txt_of d; up_gw = eui_of g; up_rssi = z_of rssi; up_snr = z_of snr; up_freq = z_of fr;
      up_datr = txt_of dr; up_addr = n_of_hex a }
  | _ -> failwith ("up: " ^ s)
let down_of s = match String.split_on_char ',' s with
  | [e; d; p; ack; c; st; at; fc] ->
    { dn_eui = eui_of e; dn_data = txt_of d; dn_port = n_of p; dn_ack = b_of ack; dn_created = i64_of c; dn_sent = i64_of st;
      dn_acktime = i64_of at; dn_fcnt = n_of fc }
  | _ -> failwith ("down: " ^ s)

let rop_of (s : string) : regop =
  match String.split_on_char ':' s with
  | ["ca"; e; t] -> CreateApplication { ap_eui = eui_of e; ap_tag = txt_of t }
  | ["da"; e] -> DeleteApplication (eui_of e)
  | ["ga"; e] -> GetApplicationByEUI (eui_of e)
  | ["la"] -> ListApplications
  | ["cd"; d] -> CreateDevice (dev_of d)
  | ["ud"; d] -> UpdateDevice (dev_of d)
  | ["us"; e; fu; fd; kw] -> UpdateDeviceState (eui_of e, n_of fu, n_of fd, b_of kw)
  | ["dd"; e] -> DeleteDevice (eui_of e)
  | ["gd"; e] -> GetDeviceByEUI (eui_of e)
  | ["gda"; a] -> GetDeviceByDevAddr (n_of_hex a)
  | ["gdp"; e] -> GetDevicesByApplicationEUI (eui_of e)
  | ["an"; e; n] -> AddDevNonce (eui_of e, n_of n)
  | ["cg"; g] -> CreateGateway (gw_of g)
  | ["ug"; g] -> UpdateGateway (gw_of g)
  | ["dg"; e] -> DeleteGateway (eui_of e)
  | ["gg"; e] -> GetGateway (eui_of e)
  | ["lg"] -> GetGatewayList
  | ["cu"; m] -> CreateUpstreamMessage (up_of m)
  | ["lu"; e; l] -> ListUpstreamMessages (eui_of e, z_of l)
  | ["cm"; m] -> CreateDownstreamMessage (down_of m)
  | ["dm"; e; c] -> DeleteDownstreamMessage (eui_of e, i64_of c)
  | ["lm"; e] -> ListDownstreamMessages (eui_of e)
  | ["x"] -> Reopen
  | ["af"; e; k; a; nf; kw] -> AdvanceFCntUp (eui_of e, bytes_of_hex k, n_of a, n_of nf, b_of kw)
  | ["nd"; e; k] -> NextFCntDn (eui_of e, bytes_of_hex k)
  | ["ss"; e; c; sent; fc] -> SetMessageSentTime (eui_of e, i64_of c, i64_of sent, n_of fc)
  | ["ua"; e; fc; at] -> UpdateMessageAckTime (eui_of e, n_of fc, i64_of at)
  | ["ra"; e] -> ResetActiveAcks (eui_of e)
  | ["nu"; e] -> GetNextUnsentMessage (eui_of e)
  | _ -> failwith ("op: " ^ s)

(* ---- service requests ---- *)
let opt f s = if s = "~" then None else Some (f s)
let devreq_of s = match String.split_on_char ',' s with
  | [eui; app; st; addr; k1; k2; k3; rl; kw; fdn; fup; ge; g1; g2; g3; ga] ->
    { q_eui = opt txt_of eui; q_app = opt txt_of app; q_state = opt n_of st; q_addr = opt n_of_hex addr;
      q_appkey = opt txt_of k1; q_appskey = opt txt_of k2; q_nwkskey = opt txt_of k3; q_relaxed = opt b_of rl; q_kw = opt b_of kw;
      q_fdn = opt z_of fdn; q_fup = opt z_of fup; q_gen_eui = eui_of ge; q_gen_appkey = bytes_of_hex g1; q_gen_appskey = bytes_of_hex g2;
      q_gen_nwkskey = bytes_of_hex g3; q_gen_addr = n_of_hex ga }
  | _ -> failwith ("devreq: " ^ s)
let gwreq_of s = match String.split_on_char ',' s with
  | [eui; ip; ipp; la; lo; al; st] ->
    { h_eui = txt_of eui; h_ip = opt txt_of ip; h_ip_parsed = opt txt_of ipp; h_lat = opt z_of la; h_lon = opt z_of lo; h_alt = opt z_of al;
      h_strict = opt b_of st }
  | _ -> failwith ("gwreq: " ^ s)
let areq_of (s : string) : areq =
  match String.split_on_char ':' s with
  | ["Aca"; t; gen] -> ACreateApplication (opt txt_of t, eui_of gen)
  | ["Aga"; t] -> AGetApplication (txt_of t)
  | ["Ada"; t] -> ADeleteApplication (txt_of t)
  | ["Ala"] -> AListApplications
  | ["Acd"; r] -> ACreateDevice (devreq_of r)
  | ["Aud"; r] -> AUpdateDevice (devreq_of r)
  | ["Agd"; t] -> AGetDevice (txt_of t)
  | ["Add"; t] -> ADeleteDevice (txt_of t)
  | ["Ald"; t] -> AListDevices (txt_of t)
  | ["Acg"; r] -> ACreateGateway (gwreq_of r)
  | ["Aug"; r] -> AUpdateGateway (gwreq_of r)
  | ["Agg"; t] -> AGetGateway (txt_of t)
  | ["Adg"; t] -> ADeleteGateway (txt_of t)
  | ["Alg"] -> AListGateways
  | ["Ain"; t] -> AInbox (txt_of t)
  | ["Aout"; t] -> AOutbox (txt_of t)
  | ["Asend"; t; p; port; ack; now] -> ASendMessage (txt_of t, txt_of p, z_of port, b_of ack, i64_of now)
  | _ -> failwith ("areq: " ^ s)
let r_adev (d, nonces) =
  let ns = List.sort compare (List.map int_of_n nonces) in
  Printf.sprintf "adev(%s,%s,%s,%s,%s,%s,%s,%s,%s,%s,%s,%s,%s)" (r_eui d.rd_eui) (pad8 (hex_of_n d.rd_addr))
    (r_txt d.rd_appkey) (r_txt d.rd_appskey) (r_txt d.rd_nwkskey) (r_eui d.rd_app) (r_n (api_state d.rd_state))
    (r_n d.rd_fup) (r_n d.rd_fdn) (r_b d.rd_relaxed) (r_b d.rd_kw) (r_txt d.rd_tag)
    (String.concat "+" (List.map string_of_int ns))
let r_adown m = Printf.sprintf "adown(%s,%s,%s,%s,%s,%s,%s)" (r_eui m.dn_eui) (r_txt m.dn_data) (r_n m.dn_port) (r_b m.dn_ack)
    (r_i64 m.dn_created) (r_i64 m.dn_sent) (r_i64 m.dn_acktime)
let r_ares = function
  | AErr c -> "E" ^ r_n c
  | AApp a -> r_app a | AApps l -> "apps[" ^ sorted r_app l ^ "]"
  | ADev (d, n) -> r_adev (d, n) | ADevs l -> "devs[" ^ sorted r_adev l ^ "]"
  | AGw g -> r_gw g | AGws l -> "gws[" ^ sorted r_gw l ^ "]"
  | AUps l -> "ups[" ^ String.concat ";" (List.map r_up l) ^ "]"
  | ADowns l -> "adowns[" ^ String.concat ";" (List.map r_adown l) ^ "]"
  | ADown m -> r_adown m
let anyop_of (s : string) : anyop = if s <> "" && s.[0] = 'A' then OApi (areq_of s) else OStore (rop_of s)
let r_any = function SRes r -> r_res r | PRes r -> r_ares r

let s_registry g obs =
  let optext = if g "ops" = "" then [] else String.split_on_char ';' (g "ops") in
  let ops = List.map anyop_of optext in
  let (_, cres) = mixed_run c_step c_empty ops in
  let (_, ares) = mixed_run a_step a_empty ops in
  let model = String.concat "|" (List.map r_any cres) in
  let spec = List.map r_any ares in
  let impl = String.split_on_char '|' obs in
  let verdict =
    if List.length impl <> List.length spec then "bad:registry-answer-count"
    else
      let rec first i a b = match a, b with
        | x :: ta, y :: tb -> if x = y then first (i + 1) ta tb else Some i
        | _ -> None in
      match first 0 impl spec with
      | None -> "ok"
      | Some i ->
        let op = List.nth optext i in
        "bad:registry-read-differs-from-what-was-accepted-" ^ List.hd (String.split_on_char ':' op) in
  (model, verdict)

let s_codec g _obs =
  let model = match g "k" with
    | "devaddr" -> (match devaddr_from_str (txt_of (g "s")) with Some a -> pad8 (hex_of_n a) | None -> "err")
    | "eui" -> (match eui_from_str (txt_of (g "s")) with Some e -> r_eui e | None -> "err")
    | "euistr" -> let e = eui_of (g "v") in r_txt (eui_str e) ^ "," ^ r_i64 (eui_to_int64 e) ^ "," ^ r_eui (eui_from_int64 (eui_to_int64 e))
    | "key" -> (match key_from_str (txt_of (g "s")) with Some k -> hex_of_bytes k | None -> "err")
    | k -> failwith ("codec kind " ^ k) in
  (model, "ok")
