(* Histories of the server model: parse population and events, run the extracted
   rx_event / submit, print the same canonical observations as the Go harness. *)
open Lospan_model
type cstring = Lospan_model.string
type string = Stdlib.String.t
open Util

let e = aes_enc
let d = aes_dec

let hexn s = n_of_hex s
let hx v = hex_of_n v

let ocaml_string_of (cs : cstring) : string =
  let rec go acc = function
    | EmptyString -> acc
    | String (Ascii (b0, b1, b2, b3, b4, b5, b6, b7), t) ->
      let v = List.fold_left (fun a (b, w) -> if b then a + w else a) 0 [(b0,1);(b1,2);(b2,4);(b3,8);(b4,16);(b5,32);(b6,64);(b7,128)] in
      go (acc ^ String.make 1 (Char.chr v)) t in
  go "" cs

let parse_dev s =
  match String.split_on_char ':' s with
  | [eui; addr; appkey; nwk; app; appeui; fup; fdn; relaxed; state] ->
    { d_eui = hexn eui; d_addr = hexn addr; d_appkey = bytes_of_hex appkey; d_appskey = bytes_of_hex app;
      d_nwkskey = bytes_of_hex nwk; d_appeui = hexn appeui; d_state = n_of_int (int_of_string state);
      d_fup = n_of_int (int_of_string fup); d_fdn = n_of_int (int_of_string fdn); d_relaxed = (relaxed = "1");
      d_keywarn = false; d_nonces = [] }
  | _ -> failwith ("bad device " ^ s)

let hex16_pad v = let h = hex_of_n v in String.make (max 0 (16 - String.length h)) '0' ^ h
let cmp_n a b = compare (hex16_pad a) (hex16_pad b)

let dump_device (s : srv) eui =
  match dt_by_eui s.s_tab eui with
  | None -> Printf.sprintf "dev %s ERR" (hx eui)
  | Some dv ->
    let non = List.sort compare (List.map int_of_n dv.d_nonces) in
    Printf.sprintf "dev %s addr=%s nwk=%s app=%s fup=%d fdn=%d kw=%s nonces=[%s]" (hx eui) (hx dv.d_addr)
      (hex_of_bytes dv.d_nwkskey) (hex_of_bytes dv.d_appskey) (int_of_n dv.d_fup) (int_of_n dv.d_fdn)
      (if dv.d_keywarn then "1" else "0") (String.concat "," (List.map string_of_int non))
let dump_outbox (s : srv) eui =
  let l = (dt_get s.s_tab eui).ds_outbox in
  let l = List.stable_sort (fun a b -> cmp_n a.m_created b.m_created) l in
  "outbox " ^ hx eui ^ " [" ^ String.concat "," (List.map (fun m ->
    Printf.sprintf "%d:%s:%s:%d" (int_of_n m.m_created) (if m.m_sent = N0 then "0" else "1") (if m.m_acktime = N0 then "0" else "1") (int_of_n m.m_fcntup)) l) ^ "]"
let dump_inbox (s : srv) eui =
  let l = (dt_get s.s_tab eui).ds_inbox in
  let l = List.stable_sort (fun a b -> cmp_n a.u_ts b.u_ts) l in
  "inbox " ^ hx eui ^ " [" ^ String.concat "," (List.map (fun m ->
    Printf.sprintf "#%s@%s:%d:%d:868.100:%s:%s" (hex_of_bytes m.u_data) (hx m.u_gweui) (int_of_z m.u_radio.r_rssi)
      ((int_of_n m.u_radio.r_snr - 1000) * 1000) (ocaml_string_of m.u_radio.r_datr) (hx m.u_addr)) l) ^ "]"
let dump_fb (s : srv) =
  let items = List.filter_map (fun (eui, st) ->
    match st.ds_fb with
    | None -> None
    | Some fd ->
      let (an, da) = match fd.fo_ja with Some j -> (hex_of_bytes j.ja_appnonce, int_of_n (devaddr_u32 j.ja_devaddr)) | None -> ("000000", 0) in
      Some (Printf.sprintf "%s mt=%d ack=%s port=%d payload=%s cmds=0 ja=%s/%d" (eui_dashed eui) (int_of_n fd.fo_mtype)
        (if fd.fo_ack then "true" else "false") (int_of_n fd.fo_port) (hex_of_bytes fd.fo_payload) an da)) s.s_tab in
  "fb{" ^ String.concat "," (List.sort compare items) ^ "}"
let dump_all (s : srv) euis =
  String.concat " ; " (List.concat_map (fun eui -> [dump_device s eui; dump_outbox s eui; dump_inbox s eui]) euis) ^ " ; " ^ dump_fb s

(* the rssi token is "rssi/snr8" (SNR in eighths of a dB, offset by 1000 to stay a natural number) *)
let rssi_snr tok = match String.split_on_char '/' tok with
  | [r; s] -> (int_of_string r, int_of_string s)
  | [r] -> (int_of_string r, 60)
  | _ -> failwith "rssi token"
let mk_radio datr rssi_tok ch =
  let (rssi, snr8) = rssi_snr rssi_tok in
  { r_rssi = z_of_int rssi; r_snr = n_of_int (snr8 + 1000); r_freq = N0; r_datr = coq_string_of datr; r_chan = n_of_int ch; r_rfch = N0; r_rx1delay = N0 }

type ev =
  | Restart
  | Init
  | Rx of rxpacket * n list * n
  | Sub of dmsg
  | Crash of rxpacket * n list * n * int * int list   (* cut after k operations (k < 0: not cut), operations that fail *)
  | Upd of n * n * n list                             (* the operator gives the device a new address / a new AppKey (UpdateDevice) *)
  | UpdFull of device * bool                          (* a whole row, read earlier, written back (UpdateDevice); key warning *)

let parse_event s =
  match String.split_on_char ',' s with
  | ["I"] -> Init
  | ["Z"] -> Restart
  | "R" :: raw :: gw :: ts :: datr :: rssi :: ch :: clock :: appnonce :: newaddr :: _ ->
    let rx = { rx_raw = bytes_of_hex raw; rx_radio = mk_radio datr rssi (int_of_string ch);
               rx_gw = { g_eui = hexn gw; g_host = N0; g_port = N0; g_clock = n_of_int (int_of_string clock); g_ver = n_of_int 2 };
               rx_ts = n_of_int (int_of_string ts) } in
    Rx (rx, (if appnonce = "" then [N0; N0; N0] else bytes_of_hex appnonce), hexn newaddr)
  | "X" :: raw :: gw :: ts :: datr :: rssi :: ch :: clock :: appnonce :: newaddr :: k :: fails :: _ ->
    let rx = { rx_raw = bytes_of_hex raw; rx_radio = mk_radio datr rssi (int_of_string ch);
               rx_gw = { g_eui = hexn gw; g_host = N0; g_port = N0; g_clock = n_of_int (int_of_string clock); g_ver = n_of_int 2 };
               rx_ts = n_of_int (int_of_string ts) } in
    Crash (rx, (if appnonce = "" then [N0; N0; N0] else bytes_of_hex appnonce), hexn newaddr, int_of_string k,
           (if fails = "" then [] else List.map int_of_string (String.split_on_char '+' fails)))
  | ["U"; eui; addr; key] -> Upd (hexn eui, hexn addr, bytes_of_hex key)
  | ["UF"; dev; kw] -> UpdFull (parse_dev dev, kw = "1")
  | ["S"; eui; created; port; ack; data] ->
    Sub { m_eui = hexn eui; m_data = bytes_of_hex data; m_port = n_of_int (int_of_string port); m_ack = (ack = "1");
          m_created = n_of_int (int_of_string created); m_sent = N0; m_acktime = N0; m_fcntup = N0 }
  | _ -> failwith ("bad event " ^ s)

let out_strings outs =
  let ds = List.filter_map (function ODown dl -> Some (Printf.sprintf "%s:%d:%s:%d:%s:%d:%d:1" (hex_of_bytes dl.dl_raw) (int_of_n dl.dl_rx1delay) (hx dl.dl_gw.g_eui) (int_of_n dl.dl_gw.g_clock)
      (ocaml_string_of dl.dl_radio.r_datr) (int_of_n dl.dl_radio.r_chan) (int_of_n dl.dl_radio.r_rfch)) | _ -> None) outs in
  let ps = List.filter_map (function OPub p -> Some (Printf.sprintf "%s:%s:%s:%s" (hx p.pb_app) (hx p.pb_eui) (hex_of_bytes p.pb_payload) (hx p.pb_gw)) | _ -> None) outs in
  "D[" ^ String.concat ";" (List.sort compare ds) ^ "] P[" ^ String.concat ";" (List.sort compare ps) ^ "]"

(* one frame handled operation by operation on the owning device's state (Model/Steps.v) *)
let stepped (s : srv) rx an na k fails : srv * out list * string list =
  let failsfn i = List.mem (int_of_nat i) fails in
  let fuel = nat_of_int (if k < 0 then 100 else k) in
  let run eui prog =
    let st = dt_get s.s_tab eui in
    let (st', outs) = prunf s.s_apps failsfn O fuel st prog [] in
    let tr = List.map ocaml_string_of (trace s.s_apps failsfn O fuel st prog) in
    ({ s with s_tab = dt_put s.s_tab eui st' }, outs, tr) in
  let (s1, outs, tr) =
    match decode (mk_slice rx.rx_raw []) with
    | Ok f ->
      let mt = int_of_n f.mtype in
      if mt = 0 then begin
        if List.length rx.rx_raw <> 23 then (s, [], [])
        else run f.jr.jr_deveui (join_prog e d s.s_cfg f rx an na)
      end else if mt = 2 || mt = 4 then begin
        match List.filter (mic_ok e f rx.rx_raw) (dt_by_devaddr s.s_tab (devaddr_u32 f.f_devaddr)) with
        | [dv] -> run dv.d_eui (uplink_prog e d f rx (S O) (n_of_int 1))
        | [] -> (s, [], if k = 0 then [] else ["GetDevice"])
        | _ -> failwith "stepped run with more than one matching device"
      end else (s, [], [])
    | _ -> (s, [], []) in
  let s2 = if k < 0 then s1 else { s1 with s_tab = List.map (fun (eui, st) -> (eui, recover st)) s1.s_tab } in
  (s2, outs, tr)

(* per-step records handed to the property oracles *)
type step = { ev : ev; pre : srv; post : srv; outs : out list; impl_obs : string }

let initial_server g =
  let (netid, nonce_off) = match String.split_on_char ':' (g "cfg") with [a; b] -> (int_of_string a, b = "1") | _ -> failwith "cfg" in
  let apps = List.map hexn (String.split_on_char ',' (g "apps")) in
  let devs = List.map parse_dev (String.split_on_char ';' (g "pop")) in
  let devs_u = List.fold_left (fun acc dv -> if List.exists (fun x -> x.d_eui = dv.d_eui) acc then acc else acc @ [dv]) [] devs in
  let euis = List.sort cmp_n (List.map (fun dv -> dv.d_eui) devs_u) in
  let tab = List.map (fun dv -> (dv.d_eui, { ds_row = Some dv; ds_nonces = []; ds_inbox = []; ds_outbox = []; ds_fb = None })) devs_u in
  ({ s_tab = tab; s_apps = apps; s_cfg = { cfg_netid = n_of_int netid; cfg_disable_nonce_check = nonce_off } }, euis)

(* two frames of one device, their handlers interleaved as the schedule says (Model/Steps.v interleave) *)
let run_sched g _obs =
  let (s0, euis) = initial_server g in
  let pre = if g "pre" = "" then [] else List.map parse_event (String.split_on_char '|' (g "pre")) in
  let s1 = List.fold_left (fun s ev -> match ev with Sub m -> fst (submit s m) | _ -> s) s0 pre in
  let frame_of tag = match parse_event (g tag) with Rx (rx, an, na) -> (rx, an, na) | _ -> failwith "frame" in
  let (rx1, an, na) = frame_of "f1" in
  let (rx2, _, _) = frame_of "f2" in
  let sched = List.init (String.length (g "sched")) (fun i -> (g "sched").[i] = '1') in
  let prog_of rx =
    match decode (mk_slice rx.rx_raw []) with
    | Ok f ->
      let mt = int_of_n f.mtype in
      if mt = 0 then Some (f.jr.jr_deveui, join_prog e d s1.s_cfg f rx an na)
      else (match List.filter (mic_ok e f rx.rx_raw) (dt_by_devaddr s1.s_tab (devaddr_u32 f.f_devaddr)) with
          | [dv] -> Some (dv.d_eui, uplink_prog e d f rx (S O) (n_of_int 1))
          | _ -> None)
    | _ -> None in
  if (try g "f3" <> "" with Failure _ -> false) then begin
    (* three handlers: interleaveN, the schedule names the handler *)
    let (rx3, _, _) = frame_of "f3" in
    let sched3 = List.init (String.length (g "sched")) (fun i -> nat_of_int (Char.code (g "sched").[i] - 48)) in
    match prog_of rx1, prog_of rx2, prog_of rx3 with
    | Some (eui, p), Some (eui2, q), Some (eui3, r3) when eui = eui2 && eui = eui3 ->
      let st = dt_get s1.s_tab eui in
      let fuel = nat_of_int 150 in
      let (st', outs) = interleaveN s1.s_apps sched3 fuel st [p; q; r3] [] in
      let tr = List.map (fun (i, nm) -> string_of_int (int_of_nat i) ^ ":" ^ ocaml_string_of nm) (itraceN s1.s_apps sched3 fuel st [p; q; r3]) in
      let s2 = { s1 with s_tab = dt_put s1.s_tab eui st' } in
      let downs_only = List.filter (function ODown _ -> true | _ -> false) outs in
      (out_strings downs_only ^ " " ^ dump_all s2 euis ^ " ; trace{" ^ String.concat "," tr ^ "}", s1, s2, eui)
    | _ -> failwith "sched case: frames do not belong to one device"
  end else
  match prog_of rx1, prog_of rx2 with
  | Some (eui, p), Some (eui2, q) when eui = eui2 ->
    let st = dt_get s1.s_tab eui in
    let fuel = nat_of_int 100 in
    let (st', outs) = interleave s1.s_apps sched fuel st p q [] in
    let tr = List.map (fun (b, nm) -> (if b then "1:" else "0:") ^ ocaml_string_of nm) (itrace s1.s_apps sched fuel st p q) in
    let s2 = { s1 with s_tab = dt_put s1.s_tab eui st' } in
    let downs_only = List.filter (function ODown _ -> true | _ -> false) outs in
    (out_strings downs_only ^ " " ^ dump_all s2 euis ^ " ; trace{" ^ String.concat "," tr ^ "}", s1, s2, eui)
  | _ -> failwith "sched case: frames do not belong to one device"

(* the second copy arrives while the first waits for its receive window: the first handler runs up to its
   buffer read (it holds the device's slot), the second runs to its end, then the first goes on; a third frame
   follows sequentially *)
let run_window g _obs =
  let (s0, euis) = initial_server g in
  let pre = if g "pre" = "" then [] else List.map parse_event (String.split_on_char '|' (g "pre")) in
  let s1 = List.fold_left (fun s ev -> match ev with Sub m -> fst (submit s m) | _ -> s) s0 pre in
  let frame_of tag = match parse_event (g tag) with Rx (rx, an, na) -> (rx, an, na) | _ -> failwith "frame" in
  let (rx1, _, _) = frame_of "f1" and (rx2, _, _) = frame_of "f2" and (rx3, an3, na3) = frame_of "f3" in
  let prog_of rx =
    match decode (mk_slice rx.rx_raw []) with
    | Ok f -> (match List.filter (mic_ok e f rx.rx_raw) (dt_by_devaddr s1.s_tab (devaddr_u32 f.f_devaddr)) with
        | [dv] -> (dv.d_eui, uplink_prog e d f rx (S O) (n_of_int 1))
        | _ -> failwith "window case: not exactly one device")
    | _ -> failwith "window case: undecodable frame" in
  let (eui, p) = prog_of rx1 in
  let (_, q) = prog_of rx2 in
  let st = dt_get s1.s_tab eui in
  (* how many operations the first handler performs before its buffer read *)
  let rec before_read st p n = match p with
    | Do (SGetPhy _, _) -> n
    | Do (o, k) -> let ((st', r), _) = exec s1.s_apps st o in before_read st' (k r) (n + 1)
    | Halt _ -> n in
  let n0 = before_read st p 0 in
  let sched = List.init n0 (fun _ -> false) @ List.init 40 (fun _ -> true) in
  let (st', outs) = interleave s1.s_apps sched (nat_of_int 200) st p q [] in
  let s2 = { s1 with s_tab = dt_put s1.s_tab eui st' } in
  let downs_only = List.filter (function ODown _ -> true | _ -> false) outs in
  let line1 = out_strings downs_only ^ " " ^ dump_all s2 euis in
  let (s3, outs3) = rx_event e d s2 rx3 an3 na3 (n_of_int 1) in
  let downs3 = List.filter (function ODown _ -> true | _ -> false) outs3 in
  let line2 = out_strings downs3 ^ " " ^ dump_all s3 euis in
  (line1 ^ "|" ^ line2, s1, s3, eui)

(* one join-request reported by two gateways, the second report inside the first one's receive window: the first handler
   runs up to its buffer read (it has notified the scheduler and waits for the window), the second runs to its end (its
   notification is a duplicate), the first finishes - the same forced order as run_window, with the join handlers *)
let run_joinwindow g _obs =
  let (s0, euis) = initial_server g in
  let s1 = s0 in
  let frame_of tag = match parse_event (g tag) with Rx (rx, an, na) -> (rx, an, na) | _ -> failwith "frame" in
  let (rx1, an, na) = frame_of "f1" and (rx2, _, _) = frame_of "f2" in
  let prog_of rx =
    match decode (mk_slice rx.rx_raw []) with
    | Ok f when int_of_n f.mtype = 0 -> (f.jr.jr_deveui, join_prog e d s1.s_cfg f rx an na)
    | _ -> failwith "joinwindow case: not a join-request" in
  let (eui, p) = prog_of rx1 in
  let (_, q) = prog_of rx2 in
  let st = dt_get s1.s_tab eui in
  let rec before_read st p n = match p with
    | Do (SGetPhy _, _) -> n
    | Do (o, k) -> let ((st', r), _) = exec s1.s_apps st o in before_read st' (k r) (n + 1)
    | Halt _ -> n in
  let n0 = before_read st p 0 in
  let sched = List.init n0 (fun _ -> false) @ List.init 40 (fun _ -> true) in
  let (st', outs) = interleave s1.s_apps sched (nat_of_int 200) st p q [] in
  let s2 = { s1 with s_tab = dt_put s1.s_tab eui st' } in
  let downs_only = List.filter (function ODown _ -> true | _ -> false) outs in
  (out_strings downs_only ^ " " ^ dump_all s2 euis, s1, s2, eui)

(* two devices sharing an address, one confirmed uplink each inside one receive window: the devices' operations
   commute (Proof/CommuteProof.v), so the outcome is that of handling the frames one after the other *)
let run_window2 g _obs =
  let (s0, euis) = initial_server g in
  let pre = if g "pre" = "" then [] else List.map parse_event (String.split_on_char '|' (g "pre")) in
  let s1 = List.fold_left (fun s ev -> match ev with Sub m -> fst (submit s m) | _ -> s) s0 pre in
  let frame_of tag = match parse_event (g tag) with Rx (rx, an, na) -> (rx, an, na) | _ -> failwith "frame" in
  let nf = (try int_of_string (g "nf") with _ -> 2) in
  let (s3, outs) = List.fold_left (fun (s, acc) i ->
      let (rx, an, na) = frame_of ("f" ^ string_of_int i) in
      let (s', o) = rx_event e d s rx an na (n_of_int 1) in (s', acc @ o)) (s1, []) (List.init nf (fun i -> i + 1)) in
  let downs_only = if (try g "pubs" = "1" with _ -> false) then outs else List.filter (function ODown _ -> true | _ -> false) outs in
  (out_strings downs_only ^ " " ^ dump_all s3 euis, s1, s3)

let run_history g obs (judge : n list -> step list -> string) =
  let (netid, nonce_off) = match String.split_on_char ':' (g "cfg") with [a; b] -> (int_of_string a, b = "1") | _ -> failwith "cfg" in
  let apps = List.map hexn (String.split_on_char ',' (g "apps")) in
  let devs = List.map parse_dev (String.split_on_char ';' (g "pop")) in
  (* CreateDevice: primary key eui *)
  let devs_u = List.fold_left (fun acc dv -> if List.exists (fun x -> x.d_eui = dv.d_eui) acc then acc else acc @ [dv]) [] devs in
  let euis = List.sort cmp_n (List.map (fun dv -> dv.d_eui) devs_u) in
  let tab = List.map (fun dv -> (dv.d_eui, { ds_row = Some dv; ds_nonces = []; ds_inbox = []; ds_outbox = []; ds_fb = None })) devs_u in
  let s0 = { s_tab = tab; s_apps = apps; s_cfg = { cfg_netid = n_of_int netid; cfg_disable_nonce_check = nonce_off } } in
  let evs = List.map parse_event (String.split_on_char '|' (g "ev")) in
  let iobs = Array.of_list (String.split_on_char '|' obs) in
  let (_, lines, steps, _) = List.fold_left (fun (s, lines, steps, i) ev ->
    let io = if i < Array.length iobs then iobs.(i) else "" in
    match ev with
    | Restart ->
      let s' = { s with s_tab = List.map (fun (eui, st) -> (eui, recover st)) s.s_tab } in
      (s', ("Z " ^ dump_all s' euis) :: lines, { ev; pre = s; post = s'; outs = []; impl_obs = io } :: steps, i + 1)
    | Init -> (s, ("I " ^ dump_all s euis) :: lines, { ev; pre = s; post = s; outs = []; impl_obs = io } :: steps, i + 1)
    | Rx (rx, an, na) ->
      let (s', outs) = rx_event e d s rx an na (n_of_int 1) in
      (s', (out_strings outs ^ " " ^ dump_all s' euis) :: lines, { ev; pre = s; post = s'; outs; impl_obs = io } :: steps, i + 1)
    | Crash (rx, an, na, k, fails) ->
      let (s', outs, tr) = stepped s rx an na k fails in
      let downs_only = List.filter (function ODown _ -> true | _ -> false) outs in
      let line = Str.global_replace (Str.regexp_string " P[]") " P[]" (out_strings downs_only) in
      (s', (line ^ " " ^ dump_all s' euis ^ " ; trace{" ^ String.concat "," tr ^ "}") :: lines, { ev; pre = s; post = s'; outs; impl_obs = io } :: steps, i + 1)
    | Upd (eui, addr, key) ->
      let st = dt_get s.s_tab eui in
      let (st', ok) = match st.ds_row with
        | Some r -> let (st', err) = l_update_device st { r with d_addr = addr; d_appkey = key } in (st', err = None)
        | None -> (st, false) in
      let s' = if ok then { s with s_tab = dt_put s.s_tab eui st' } else s in
      (s', (Printf.sprintf "U%s %s" (if ok then "1" else "0") (dump_all s' euis)) :: lines, { ev; pre = s; post = s'; outs = []; impl_obs = io } :: steps, i + 1)
    | UpdFull (dv, kw) ->
      let st = dt_get s.s_tab dv.d_eui in
      let (st', ok) = match st.ds_row with
        | Some _ -> let (st', err) = l_update_device st { dv with d_keywarn = kw } in (st', err = None)
        | None -> (st, false) in
      let s' = if ok then { s with s_tab = dt_put s.s_tab dv.d_eui st' } else s in
      (s', (Printf.sprintf "U%s %s" (if ok then "1" else "0") (dump_all s' euis)) :: lines, { ev; pre = s; post = s'; outs = []; impl_obs = io } :: steps, i + 1)
    | Sub m ->
      let (s', ok) = submit s m in
      (s', (Printf.sprintf "S%s %s" (if ok then "1" else "0") (dump_all s' euis)) :: lines, { ev; pre = s; post = s'; outs = []; impl_obs = io } :: steps, i + 1))
    (s0, [], [], 0) evs in
  (String.concat "|" (List.rev lines), judge euis (List.rev steps))
