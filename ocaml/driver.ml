(* Reads cases (one per line: "<suite> <id> k=v ... => <impl observation>") and
   prints "<id>\t<model observation>\t<oracle verdict on the impl observation>". *)
open Lospan_model
type cstring = Lospan_model.string
type string = Stdlib.String.t
open Util

let suites : (string, (string -> string) -> string -> string * string) Hashtbl.t = Hashtbl.create 32
let register name f = Hashtbl.replace suites name f

let () = Suites.register_all register

let () =
  let ic = if Array.length Sys.argv > 1 then open_in Sys.argv.(1) else stdin in
  (try
    while true do
      let line = input_line ic in
      if String.length line > 0 && line.[0] <> '#' then begin
        let (inp, obs) =
          match Str.bounded_split_delim (Str.regexp_string " => ") line 2 with
          | [a; b] -> (a, b) | [a] -> (a, "") | _ -> (line, "") in
        match String.split_on_char ' ' inp with
        | suite :: id :: fields ->
          let g = parse_fields fields in
          (match Hashtbl.find_opt suites suite with
           | None -> Printf.printf "%s\tERROR unknown suite %s\tskip\n" id suite
           | Some f ->
             (try let (m, o) = f g obs in Printf.printf "%s\t%s\t%s\n" id m o
              with e -> Printf.printf "%s\tERROR %s\terror\n" id (Printexc.to_string e)))
        | _ -> ()
      end
    done
  with End_of_file -> ());
  flush stdout
