#!/bin/bash
# Extract the models and build the driver. Run from anywhere.
set -e
cd "$(dirname "$0")"
coqc -Q ../coq Lospan ../coq/Extract.v >/dev/null
rm -f ../coq/Extract.vo ../coq/Extract.glob ../coq/.Extract.aux ../coq/Extract.vok ../coq/Extract.vos
ocamlfind ocamlopt -O2 -w -a -package str -linkpkg lospan_model.mli lospan_model.ml util.ml hist.ml judge.ml gwsuite.ml regsuite.ml suites.ml driver.ml -o driver 2>&1 | grep -v "^$" || true
test -x driver
