(* One handler per correspondence suite: runs the extracted model on the case's
   inputs and the extracted spec oracle on the implementation's observation. *)
open Lospan_model
open Util

let e = aes_enc
let d = aes_dec

(* ---- C14 ---- *)
let s_aes g _obs =
  let k = getb g "key" and b = getb g "block" in
  (hex_of_bytes (aes_enc k b) ^ " " ^ hex_of_bytes (aes_dec k b), "ok")

let s_cmac g obs =
  let k = getb g "key" and m = getb g "msg" and sp = getb g "spare" in
  let (tag, sp') = aescmac e k m sp in
  let model = hex_of_bytes tag ^ " " ^ hex_of_bytes sp' in
  (* oracle: impl tag = RFC 4493 tag, impl spare unchanged *)
  let verdict =
    match String.split_on_char ' ' obs with
    | [itag; isp] ->
      if itag <> hex_of_bytes (rfc4493 e k m) then "bad:rfc4493"
      else if isp <> hex_of_bytes sp then "bad:impure" else "ok"
    | _ -> "bad:shape" in
  (model, verdict)

let mk_frame mt addr fcnt port frm_ =
  let cs = { cs_cmds = []; cs_max = Z0; cs_msg = mt } in
  { mtype = mt; major = N0; f_devaddr = devaddr_of_u32 addr;
    fc = { adr = false; adrackreq = false; ack = false; fpending = false; classb = false; foptslen = N0 };
    fcnt = fcnt; fopts = cs; fport = port; frm = frm_; maccmds = cs; mic = N0;
    jr = { jr_appeui = N0; jr_deveui = N0; jr_devnonce = N0 };
    ja = { ja_appnonce = []; ja_netid = N0; ja_devaddr = devaddr_of_u32 N0; ja_rx1droffset = N0; ja_rx2dr = N0; ja_rxdelay = N0 } }

let s_cipher g obs =
  let nk = getb g "nwk" and ak = getb g "app" in
  let f = mk_frame (getn g "mtype") (n_of_hex (g "addr")) (getn g "fcnt") (getn g "port") (getb g "frm") in
  let f1 = frame_crypt e nk ak f in
  let f2 = frame_crypt e nk ak f1 in
  let model = hex_of_bytes f1.frm ^ " " ^ hex_of_bytes f2.frm ^ " 1" in
  let verdict =
    match String.split_on_char ' ' obs with
    | [_; twice; same] -> if twice <> g "frm" then "bad:involution" else if same <> "1" then "bad:other-fields" else "ok"
    | _ -> "bad:shape" in
  (model, verdict)

let s_mic g _obs =
  let k = getb g "key" in
  let m = data_mic e k (getbool g "up") (n_of_hex (g "addr")) (getn g "fcnt") (getb g "msg") in
  (hex_of_n m, "ok")

let register_all register =
  register "aes" s_aes;
  register "cmac" s_cmac;
  register "cipher" s_cipher;
  register "mic" s_mic
