(* One handler per correspondence suite: runs the extracted model on the case's
   inputs and the extracted spec oracle on the implementation's observation. *)
open Lospan_model
type cstring = Lospan_model.string
type string = Stdlib.String.t
open Util

let e = aes_enc
let d = aes_dec

(* ---- C14 ---- *)
let s_aes g _obs =
  let k = getb g "key" and b = getb g "block" in
  (hex_of_bytes (aes_enc k b) ^ " " ^ hex_of_bytes (aes_dec k b), "ok")

let s_cmac g obs =
  let k = getb g "key" and m = getb g "msg" and sp = getb g "spare" in
  let (tag, sp') = aescmac e k m sp in
  let model = hex_of_bytes tag ^ " " ^ hex_of_bytes sp' in
  (* oracle: impl tag = RFC 4493 tag, impl spare unchanged *)
  let verdict =
    match String.split_on_char ' ' obs with
    | [itag; isp] ->
      if itag <> hex_of_bytes (rfc4493 e k m) then "bad:rfc4493"
      else if isp <> hex_of_bytes sp then "bad:impure" else "ok"
    | _ -> "bad:shape" in
  (model, verdict)

let mk_frame mt addr fcnt port frm_ =
  let cs = { cs_cmds = []; cs_max = Z0; cs_msg = mt } in
  { mtype = mt; major = N0; f_devaddr = devaddr_of_u32 addr;
    fc = { adr = false; adrackreq = false; ack = false; fpending = false; classb = false; foptslen = N0 };
    fcnt = fcnt; fopts = cs; fport = port; frm = frm_; maccmds = cs; mic = N0;
    jr = { jr_appeui = N0; jr_deveui = N0; jr_devnonce = N0 };
    ja = { ja_appnonce = []; ja_netid = N0; ja_devaddr = devaddr_of_u32 N0; ja_rx1droffset = N0; ja_rx2dr = N0; ja_rxdelay = N0 } }

let s_cipher g obs =
  let nk = getb g "nwk" and ak = getb g "app" in
  let f = mk_frame (getn g "mtype") (n_of_hex (g "addr")) (getn g "fcnt") (getn g "port") (getb g "frm") in
  let f1 = frame_crypt e nk ak f in
  let f2 = frame_crypt e nk ak f1 in
  let model = hex_of_bytes f1.frm ^ " " ^ hex_of_bytes f2.frm ^ " 1" in
  let verdict =
    match String.split_on_char ' ' obs with
    | [_; twice; same] -> if twice <> g "frm" then "bad:involution" else if same <> "1" then "bad:other-fields-or-the-callers-bytes-changed" else "ok"
    | _ -> "bad:shape" in
  (model, verdict)

let s_mic g _obs =
  let k = getb g "key" in
  let m = data_mic e k (getbool g "up") (n_of_hex (g "addr")) (getn g "fcnt") (getb g "msg") in
  (hex_of_n m, "ok")

(* ---- C13 ---- *)
let show_outcome show = function
  | Ok a -> "ok:" ^ show a
  | Err e -> "err" ^ string_of_int (int_of_n (err_code e))
  | Panic -> "PANIC"
(* ---- C04: the device's side of the join procedure (library functions) ---- *)
let s_joinreq g obs =
  let k = getb g "key" in
  let j = { jr_appeui = n_of_hex (g "appeui"); jr_deveui = n_of_hex (g "deveui"); jr_devnonce = getn g "nonce" } in
  let mt = getn g "mt" in
  let model = show_outcome hex_of_bytes (encode_join_request e k mt N0 j) in
  let verdict =
    if int_of_n mt <> 0 then (if String.length obs >= 3 && String.sub obs 0 3 = "err" then "ok" else "bad:join-request-encoded-for-another-message-type")
    else if obs = "ok:" ^ hex_of_bytes (ref_join_request e k (le_bytes (nat_of_int 8) j.jr_appeui) (le_bytes (nat_of_int 8) j.jr_deveui) (be_bytes (nat_of_int 2) j.jr_devnonce))
    then "ok" else "bad:library-join-request-is-not-the-specified-one" in
  (model, verdict)
let s_joinacc g obs =
  let k = getb g "key" and buf = getb g "buf" and dn = getb g "devnonce" in
  let show (j : joinacc) = Printf.sprintf "%s/%d/%d/%d/%d/%d/%d" (hex_of_bytes j.ja_appnonce) (int_of_n j.ja_netid) (int_of_n j.ja_devaddr.nwkid)
      (int_of_n j.ja_devaddr.nwkaddr) (int_of_n j.ja_rx1droffset) (int_of_n j.ja_rx2dr) (int_of_n j.ja_rxdelay) in
  let model = show_outcome show (decode_join_accept e k buf) in
  (* the reference device (Spec/RefDevice.v) accepts exactly the join-accepts the library function accepts, with the same address *)
  let verdict =
    match ref_on_join_accept e k dn buf with
    | Some ((addr, _), _) ->
      (match String.split_on_char '/' obs with
       | [_; _; nwkid; nwkaddr; _; _; _] when String.length obs > 3 && String.sub obs 0 3 = "ok:" ->
         if int_of_string nwkid * 33554432 + int_of_string nwkaddr = int_of_n addr then "ok" else "bad:library-device-derives-another-address"
       | _ -> "bad:library-device-rejects-a-genuine-join-accept")
    | None -> if String.length obs >= 3 && String.sub obs 0 3 = "ok:" then "bad:library-device-accepts-an-unauthentic-join-accept" else "ok" in
  (model, verdict)

let nlist_of_string s = List.map (fun x -> n_of_int (int_of_string x)) (split_list s)
let string_of_nlist l = "[" ^ String.concat "," (List.map (fun x -> string_of_int (int_of_n x)) l) ^ "]"

let s_maccmd g obs =
  let up = getbool g "up" and cid = getn g "cid" in
  let vs = nlist_of_string (g "fields") in
  let buflen = geti g "buflen" and pos = geti g "pos" and rest = getb g "rest" in
  let c = { c_up = up; c_cid = cid; c_fields = vs } in
  let enc = cmd_encode (nat_of_int buflen) (nat_of_int pos) c in
  let encs = show_outcome hex_of_bytes enc in
  let decs = match enc with
    | Ok bs ->
      (match new_cmd up cid with
       | None -> "nocmd"
       | Some z ->
         let buf = bs @ rest in
         let dl = pos + List.length buf in
         show_outcome (fun c' -> string_of_nlist c'.c_fields ^ ":" ^ string_of_int (int_of_nat (cmd_len c')))
           (cmd_decode (nat_of_int dl) (nat_of_int pos) z buf))
    | _ -> "-" in
  let model = encs ^ " " ^ decs in
  (* oracle: the specified layout, applied to the implementation's own output *)
  let verdict =
    match layout_payload up cid vs with
    | None -> "ok"   (* some value does not fit its field: the specification does not say *)
    | Some p ->
      let want = hex_of_bytes (cid :: p) in
      let l = 1 + List.length p in
      if geti g "len" <> l then "bad:length"
      else if geti g "id" <> int_of_n cid || getbool g "cmdup" <> up then "bad:identity"
      else
      (match String.split_on_char ' ' obs with
       | [e; d] ->
         let fits = buflen > pos + l in
         if fits && e <> "ok:" ^ want then "bad:layout"
         else if (not fits) && String.length e >= 3 && String.sub e 0 3 = "ok:" && e <> "ok:" ^ want then "bad:layout"
         else if String.length e >= 3 && String.sub e 0 3 = "ok:" && List.length rest >= 1
                 && d <> "ok:" ^ string_of_nlist vs ^ ":" ^ string_of_int l then "bad:roundtrip"
         else "ok"
       | _ -> "bad:shape") in
  (model, verdict)

let parse_set_ops s =
  List.map (fun o ->
    match String.split_on_char ':' o with
    | ["r"; cid] -> `Remove (n_of_int (int_of_string cid))
    | ["a"; up; cid; vs] ->
      let vl = if vs = "" then [] else List.map (fun x -> n_of_int (int_of_string x)) (String.split_on_char '/' vs) in
      `Add { c_up = (up = "1"); c_cid = n_of_int (int_of_string cid); c_fields = vl }
    | _ -> failwith ("bad op " ^ o)) (if s = "" then [] else String.split_on_char ',' s)

let s_macset g obs =
  let msg = getn g "msg" and max = geti g "max" in
  let ops = parse_set_ops (g "ops") in
  let s0 = new_set msg (z_of_int max) in
  let (s, res) = List.fold_left (fun (s, acc) o ->
    match o with
    | `Remove cid -> (set_remove s cid, acc ^ "r")
    | `Add c -> let (s', ok) = set_add s c in (s', acc ^ (if ok then "1" else "0"))) (s0, "") ops in
  let lst = String.concat "," (List.map (fun c -> (if c.c_up then "1" else "0") ^ ":" ^ string_of_int (int_of_n c.c_cid)) (set_list s)) in
  let enc = show_outcome hex_of_bytes (set_encode (nat_of_int 300) O s) in
  let model = Printf.sprintf "%s [%s] %d %d %s" res lst (int_of_nat (set_encoded_length s)) (int_of_nat (set_size s)) enc in
  let verdict =
    match String.split_on_char ' ' obs with
    | [_; l; el; _; e] ->
      let l = String.sub l 1 (String.length l - 2) in
      let items = if l = "" then [] else List.map (fun x -> match String.split_on_char ':' x with [u; c] -> (u = "1", int_of_string c) | _ -> failwith "item") (String.split_on_char ',' l) in
      let rec sorted = function a :: (b :: _ as t) -> snd a < snd b && sorted t | _ -> true in
      let up = mtype_uplink msg in
      let el = int_of_string el in
      if not (sorted items) then "bad:set-order"
      else if List.exists (fun (u, _) -> u <> up) items then "bad:set-direction"
      else if el > (if max < 0 then 0 else max) then "bad:set-limit"
      else if String.length e >= 3 && String.sub e 0 3 = "ok:" && (String.length e - 3) / 2 <> el then "bad:set-length"
      else "ok"
    | _ -> "bad:shape" in
  (model, verdict)

(* ---- C12 / C11: PHY frames ---- *)
let hex16 v = let h = hex_of_n v in String.make (max 0 (16 - String.length h)) '0' ^ h
let hex8 v = let h = hex_of_n v in String.make (max 0 (8 - String.length h)) '0' ^ h
let b01 b = if b then "1" else "0"
let cmd_str c = Printf.sprintf "%s:%d:%s" (b01 c.c_up) (int_of_n c.c_cid)
    (String.concat "/" (List.map (fun x -> string_of_int (int_of_n x)) c.c_fields))
let cmds_str l = "[" ^ String.concat ";" (List.map cmd_str l) ^ "]"
let frame_str (f : frame) =
  Printf.sprintf "mt=%d mj=%d addr=%d/%d fc=%s%s%s%s%s/%d fcnt=%d fopts=%s port=%d frm=%s cmds=%s mic=%s jr=%s/%s/%d ja=%s/%d/%d/%d/%d/%d/%d"
    (int_of_n f.mtype) (int_of_n f.major) (int_of_n f.f_devaddr.nwkid) (int_of_n f.f_devaddr.nwkaddr)
    (b01 f.fc.adr) (b01 f.fc.adrackreq) (b01 f.fc.ack) (b01 f.fc.fpending) (b01 f.fc.classb) (int_of_n f.fc.foptslen)
    (int_of_n f.fcnt) (cmds_str f.fopts.cs_cmds) (int_of_n f.fport) (hex_of_bytes f.frm) (cmds_str f.maccmds.cs_cmds) (hex8 f.mic)
    (hex16 f.jr.jr_appeui) (hex16 f.jr.jr_deveui) (int_of_n f.jr.jr_devnonce)
    (hex_of_bytes f.ja.ja_appnonce) (int_of_n f.ja.ja_netid) (int_of_n f.ja.ja_devaddr.nwkid) (int_of_n f.ja.ja_devaddr.nwkaddr)
    (int_of_n f.ja.ja_rx1droffset) (int_of_n f.ja.ja_rx2dr) (int_of_n f.ja.ja_rxdelay)
let decode_str data spare = show_outcome (fun f -> " " ^ frame_str f) (decode (mk_slice data spare))
let decode_obs data spare =
  match decode (mk_slice data spare) with
  | Ok f -> "ok " ^ frame_str f
  | Err e -> "err" ^ string_of_int (int_of_n (err_code e))
  | Panic -> "PANIC"

(* what the specification says the implementation must have reported for these bytes *)
let field_of obs key =
  let toks = String.split_on_char ' ' obs in
  let pre = key ^ "=" in
  match List.find_opt (fun t -> String.length t >= String.length pre && String.sub t 0 (String.length pre) = pre) toks with
  | Some t -> String.sub t (String.length pre) (String.length t - String.length pre)
  | None -> "?"
let is_suffix s sub =
  let n = String.length s and m = String.length sub in m <= n && String.sub s (n - m) m = sub

let spec_judge data obs =
  let accepted = String.length obs >= 3 && String.sub obs 0 3 = "ok " in
  if obs = "PANIC" then "bad:panic" else
  match spec_decode data with
  | None -> if accepted && (let mt = field_of obs "mt" in mt = "2" || mt = "3" || mt = "4" || mt = "5") then "bad:accepted-short" else "ok"
  | Some g ->
    let mt = int_of_n g.s_mtype in
    if int_of_n g.s_major <> 0 || mt = 6 || mt = 7 then (if accepted then "bad:unsupported-accepted" else "ok")
    else if not (s_is_data g) then "ok"      (* join messages: judged by C04 *)
    else if not accepted then "ok"           (* the property speaks of accepted frames; acceptance itself is C02 *)
    else begin
      let up = s_uplink g in
      let chk k v = field_of obs k = v in
      let segs = spec_set (spec_cmds up g.s_fopts) in
      let exp_fopts = cmds_str (List.filter_map (fun (cid, pl) ->
          match cmd_payload_dec up cid pl with Some fs -> Some { c_up = up; c_cid = cid; c_fields = fs } | None -> None) segs) in
      let addr = g.s_addr in
      let da = devaddr_of_u32 addr in
      let fcs = Printf.sprintf "%s%s%s%s%s/%d" (b01 (s_adr g)) (b01 (s_adrackreq g)) (b01 (s_ack g)) (b01 (s_fpending g)) (b01 (s_fpending g))
          (List.length g.s_fopts) in
      if not (chk "mt" (string_of_int mt)) then "bad:mtype"
      else if not (chk "mj" "0") then "bad:major"
      else if not (chk "addr" (Printf.sprintf "%d/%d" (int_of_n da.nwkid) (int_of_n da.nwkaddr))) then "bad:devaddr"
      else if not (chk "fc" fcs) then "bad:fctrl"
      else if not (chk "fcnt" (string_of_int (int_of_n g.s_fcnt))) then "bad:fcnt"
      else if not (chk "fopts" exp_fopts) then "bad:fopts"
      else if not (chk "mic" (hex8 g.s_mic)) then "bad:mic"
      else match g.s_port with
        | None -> if chk "port" "0" && chk "frm" "" then "ok" else "bad:port-absent"
        | Some p ->
          if not (chk "port" (string_of_int (int_of_n p))) then "bad:port"
          else if int_of_n p <> 0 then
            (if chk "frm" (hex_of_bytes g.s_payload) && chk "cmds" "[]" then "ok" else "bad:payload")
          else (if is_suffix (hex_of_bytes g.s_payload) (field_of obs "frm") then "ok" else "bad:port0-containment")
    end

let s_phy g obs =
  let data = getb g "data" and spare = getb g "spare" in
  (decode_obs data spare, spec_judge data obs)

let mk_set msg max ops =
  List.fold_left (fun s o -> match o with `Add c -> fst (set_add s c) | `Remove cid -> set_remove s cid) (new_set msg (z_of_int max)) ops

let s_phyenc g obs =
  let mt = getn g "mt" in
  let fcs = g "fc" in
  let fl i = fcs.[i] = '1' in
  let p = new_phy mt in
  let f = { p with major = getn g "mj";
            f_devaddr = { nwkid = getn g "nwkid"; nwkaddr = getn g "nwkaddr" };
            fc = { adr = fl 0; adrackreq = fl 1; ack = fl 2; fpending = fl 3; classb = fl 4; foptslen = N0 };
            fcnt = getn g "fcnt";
            fopts = mk_set mt (geti g "foptsmax") (parse_set_ops (g "fopts"));
            fport = getn g "port"; frm = getb g "frm";
            maccmds = mk_set mt 222 (parse_set_ops (g "cmds"));
            mic = n_of_hex (g "mic") } in
  let model = match encode f with
    | Ok bs -> "ok:" ^ hex_of_bytes bs ^ " " ^ decode_obs bs []
    | Err e -> "err" ^ string_of_int (int_of_n (err_code e))
    | Panic -> "PANIC" in
  (* oracle: the bytes the implementation produced, read by the specification, must give back the fields *)
  let verdict =
    if String.length obs >= 3 && String.sub obs 0 3 = "ok:" then begin
      let sp = String.index obs ' ' in
      let bytes = bytes_of_hex (String.sub obs 3 (sp - 3)) in
      let dec = String.sub obs (sp + 1) (String.length obs - sp - 1) in
      let mti = int_of_n mt in
      if mti < 2 || mti > 5 then "ok" else
      match spec_decode bytes with
      | None -> "bad:enc-not-a-frame"
      | Some s ->
        let frm = getb g "frm" in
        let port = if frm = [] then 0 else geti g "port" in
        let exp_addr = ((geti g "nwkid" land 0x7f) lsl 25) lor (geti g "nwkaddr" land 0x1FFFFFF) in
        if int_of_n s.s_mtype <> mti then "bad:enc-mtype"
        else if int_of_n s.s_major <> (geti g "mj" land 3) then "bad:enc-major"
        else if geti g "nwkid" < 128 && int_of_n s.s_addr <> exp_addr then "bad:enc-devaddr"
        else if s_adr s <> fl 0 || s_adrackreq s <> fl 1 || s_ack s <> fl 2 || s_fpending s <> (fl 3 || fl 4) then "bad:enc-fctrl"
        else if int_of_n s.s_fcnt <> geti g "fcnt" then "bad:enc-fcnt"
        else if hex8 s.s_mic <> g "mic" then "bad:enc-mic"
        else if List.length s.s_fopts <> int_of_nat (set_encoded_length f.fopts) then "bad:enc-foptslen"
        else if frm <> [] && (s.s_port <> Some (n_of_int port) || s.s_payload <> frm) then "bad:enc-payload"
        else if geti g "mj" = 0 && String.length dec >= 3 && String.sub dec 0 3 <> "ok " then "bad:enc-roundtrip"
        else "ok"
    end else "ok" in
  (model, verdict)

(* ---- server histories (C01..C09) ---- *)
let s_hist judge g obs = Hist.run_history g obs judge
let no_judge _ _ = "ok"

(* ---- C20: event router ---- *)
let s_router g obs =
  let ops = List.map (fun o ->
      match o.[0] with
      | 'S' -> RSub (n_of_int (int_of_string (String.sub o 1 (String.length o - 1))))
      | 'U' -> RUnsub (n_of_int (int_of_string (String.sub o 1 (String.length o - 1))))
      | _ -> (match String.split_on_char ':' (String.sub o 1 (String.length o - 1)) with
          | [i; e] -> RPub (n_of_int (int_of_string i), n_of_int (int_of_string e)) | _ -> failwith "op"))
      (if g "ops" = "" then [] else String.split_on_char ',' (g "ops")) in
  let r = rrun ops in
  let show q closed = String.concat "," (List.map (fun x -> string_of_int (int_of_n x)) q) ^ "/" ^ (if closed then "1" else "0") in
  let model = String.concat ";" (List.map (fun ch -> show ch.rc_q ch.rc_closed) r.r_chans) in
  let nch = List.length r.r_chans in
  let spec = String.concat ";" (List.init nch (fun c -> show (expected ops N0 None (n_of_int c)) (expected_closed ops N0 false false (n_of_int c)))) in
  (model, if obs = spec then "ok" else "bad:subscriber-did-not-get-exactly-its-events-in-order")
let s_routerconc g obs =
  let k = (try g "k" with _ -> "") in
  let what = if k = "publishers" then "bad:concurrent-publishers-" else if k = "stalled" then "bad:stalled-subscriber-" else "bad:concurrent-unsubscribe-" in
  ("ok", if obs = "ok" then "ok" else what ^ (List.hd (String.split_on_char ':' obs)))

(* ---- C19: EUI allocator ---- *)
let s_keygen g obs =
  let size = getn g "size" and netid = getn g "netid" and interval = getn g "interval" in
  let prefix64 = n_of_hex (g "prefix" ^ "000000") in
  let pos = geti g "pos" in
  let evs = if g "evs" = "" then [] else String.split_on_char ',' (g "evs") in
  let st = ref { a_dur = (if pos > 1 then Some (n_of_int pos) else None); a_blk = [] } in
  let pad h = String.make (max 0 (16 - String.length h)) '0' ^ h in
  let req () =
    let (s', o) = astep interval !st AReq in st := s';
    match o with
    | Some id -> pad (hex_of_n (eui_of size prefix64 netid id)) ^ ":" ^ (if exhausted id then "1" else "0")
    | None -> "none" in
  let quiet ev = let (s', _) = astep interval !st ev in st := s' in
  let model = String.concat "," (List.map (fun e ->
      match e.[0] with
      | 'R' -> req ()
      | 'K' -> let k = int_of_string (String.sub e 1 (String.length e - 1)) in
        String.concat "+" (List.sort compare (List.init k (fun _ -> req ())))
      | 'X' -> quiet ARestart; "-"
      | 'J' -> quiet (AForeign (n_of_int (int_of_string (String.sub e 1 (String.length e - 1))))); "-"
      | 'B' -> quiet ARestart; quiet ACrashBeforeCommit; "hang"
      | 'A' -> quiet ARestart; quiet ACrashAfterCommit; "hang"
      | _ -> failwith "ev") evs) in
  (* oracle on the observation alone *)
  let sz = int_of_n size in
  let free = 64 - sz in
  let issued = List.concat_map (fun o -> if o = "-" || o = "hang" then [] else
      List.filter_map (fun r -> match String.split_on_char ':' r with
          | [e; "0"] when String.length e = 16 -> Some e | ["returned"; e; "0"] -> Some e | _ -> None)
        (String.split_on_char '+' o)) (String.split_on_char ',' obs) in
  let pfx = pad (hex_of_n prefix64) in
  let nyb = sz / 4 in
  let low e = int_of_string ("0x" ^ String.sub e 6 10) land ((1 lsl free) - 1) in
  let verdict =
    if List.exists (fun e -> String.sub e 0 nyb <> String.sub pfx 0 nyb) issued then "bad:eui-without-prefix"
    else if List.exists (fun e -> (low e) lsr 25 <> int_of_n netid) issued then "bad:eui-without-netid"
    else if List.length (List.sort_uniq compare issued) <> List.length issued then "bad:eui-issued-twice"
    else "ok" in
  (model, verdict)

(* the MA prefix as configured text: refused, or identifiers that start with the digits configured *)
let s_macfg g obs =
  let str = String.concat "" (List.map (fun b -> String.make 1 (Char.chr (int_of_n b))) (getb g "s")) in
  let ds = String.lowercase_ascii (String.concat "" (String.split_on_char '-' str)) in
  let is_hex c = (c >= '0' && c <= '9') || (c >= 'a' && c <= 'f') in
  let all_hex = let ok = ref true in String.iter (fun c -> if not (is_hex c) then ok := false) ds; !ok in
  let n = String.length ds in
  let pad h = String.make (max 0 (16 - String.length h)) '0' ^ h in
  let netid = getn g "netid" and id = getn g "id" in
  let model =
    if all_hex && n mod 2 = 0 && (n = 6 || n = 8 || n = 10) then begin
      let size = n_of_int (match n with 6 -> 24 | 8 -> 28 | _ -> 36) in
      let prefix64 = n_of_hex (ds ^ String.make (16 - n) '0') in
      Printf.sprintf "ok:%d:%s" (int_of_n size) (pad (hex_of_n (eui_of size prefix64 netid id)))
    end else "err" in
  let verdict =
    match String.split_on_char ':' obs with
    | ["ok"; size; eui] ->
      let nd = (int_of_string size) / 4 in
      if not all_hex || n < nd then "bad:configuration-accepted-that-names-no-prefix-of-that-size"
      else if String.sub eui 0 nd <> String.sub ds 0 nd then "bad:eui-does-not-start-with-the-configured-prefix"
      else "ok"
    | _ -> if obs = "err" then "ok" else "bad:configuration-check-" ^ obs in
  (model, verdict)

(* the six packet types of the gateway protocol: GwPacket.MarshalBinary / UnmarshalBinary themselves *)
let s_gwcodec g obs =
  if g "dir" = "u" then begin
    let model = match gw_unmarshal (getb g "data") with
      | Ok p -> Printf.sprintf "ok:%d:%d:%d:%s:%s" (int_of_n p.gp_ver) (int_of_n p.gp_token) (int_of_n p.gp_ident) (hex_of_n p.gp_eui) (hex_of_bytes p.gp_json)
      | _ -> "err" in
    (model, if obs = "PANIC" then "bad:datagram-decoder-panics" else "ok")
  end else begin
    let p = { gp_ver = getn g "ver"; gp_token = getn g "token"; gp_ident = getn g "ident"; gp_eui = n_of_hex (g "eui"); gp_json = getb g "json" } in
    let ident = geti g "ident" in
    let model = match gw_marshal p with
      | Ok b -> "ok:" ^ hex_of_bytes b ^ ":1"
      | _ -> "err" in
    let verdict =
      if ident >= 0 && ident <= 5 then
        (match String.split_on_char ':' obs with
         | ["ok"; _; "1"] -> "ok"
         | _ -> "bad:packet-type-does-not-survive-encode-decode")
      else if obs = "PANIC" then "bad:datagram-encoder-panics" else "ok" in
    (model, verdict)
  end

(* ---- forced schedules (C03, C05, C07, C09) ---- *)
let s_sched which g obs =
  if obs = "HUNG" then ("?", "bad:sched-hung") else
  if g "kind" = "window" then begin
    let (model, _pre, _post, _eui) = Hist.run_window g obs in
    (* the oracle on the implementation's own output: one answer to the two copies, and the later unconfirmed
       uplink is not answered with an ACK *)
    let parts = String.split_on_char '|' obs in
    let downs_of o = match Judge.split_obs o with Some (ds, _, _) -> List.map (fun dstr -> Util.bytes_of_hex (List.hd (String.split_on_char ':' dstr))) ds | None -> [] in
    let ackbit raw = match raw with _ :: _ :: _ :: _ :: _ :: fctrl :: _ -> (Util.int_of_n fctrl / 32) land 1 = 1 | _ -> false in
    let verdict = match parts with
      | [o1; o2] ->
        if List.length (downs_of o1) <> 1 then "bad:window-copies-not-answered-once"
        else if not (List.for_all ackbit (downs_of o1)) then "bad:window-confirmed-uplink-answered-without-ACK"
        else if List.exists ackbit (downs_of o2) then "bad:ACK-flag-repeated-on-answer-to-unconfirmed-uplink"
        else "ok"
      | _ -> "bad:window-observation-shape" in
    (model, verdict)
  end else
  if g "kind" = "joinwindow" then begin
    let (model, pre, _post, eui) = Hist.run_joinwindow g obs in
    (* one join-accept, and the stored session is the one it conveys (the rule of the forced join schedules) *)
    let n_acc = match Judge.split_obs obs with
      | Some (ds, _, _) -> List.length (List.filter (fun dstr -> match Util.bytes_of_hex (List.hd (String.split_on_char ':' dstr)) with b0 :: _ -> Util.int_of_n b0 / 32 = 1 | [] -> false) ds)
      | None -> 0 in
    (model, if n_acc <> 1 then "bad:window-join-request-not-answered-once" else Judge.judge_sched "C05" g obs pre eui)
  end else
  if g "kind" = "window2" && (try g "queue" = "1" with _ -> false) then begin
    (* shared address, the second device with two queued messages and two uplinks: its data downlinks, in the order of their
       frame counters, carry its queued messages oldest first, one each; the first device is answered once *)
    let (model, pre, _post) = Hist.run_window2 g obs in
    let verdict = match Judge.split_obs obs with
      | None -> "bad:sched-unreadable-observation"
      | Some (ds, _, _) ->
        let raws = List.map (fun dstr -> Util.bytes_of_hex (List.hd (String.split_on_char ':' dstr))) ds in
        let rows = List.filter_map (fun (_, st) -> st.ds_row) pre.s_tab in
        let queued eui = List.concat_map (fun (e2, st) -> if e2 = eui then List.map (fun m -> (m.m_port, m.m_data)) st.ds_outbox else []) pre.s_tab in
        let check r =
          let got = List.filter_map (fun raw -> match ref_on_downlink e r.d_nwkskey r.d_appskey r.d_addr raw with
              | Some ((((_, _), fcnt), port), plain) -> Some (Util.int_of_n fcnt, port, plain) | None -> None) raws in
          let got = List.sort compare got in
          let carried = List.filter_map (fun (_, port, plain) -> match port with Some p when plain <> [] -> Some (p, plain) | _ -> None) got in
          let q = queued r.d_eui in
          let rec prefix a b = match a, b with [], _ -> true | x :: a', y :: b' -> x = y && prefix a' b' | _ -> false in
          if not (prefix carried q) then "bad:window-queued-messages-not-delivered-oldest-first"
          else if List.length carried < min (List.length q) (if List.length q >= 2 then 2 else 1) then "bad:window-queued-message-not-delivered-on-its-uplink"
          else "ok" in
        (match List.filter (fun v -> v <> "ok") (List.map check rows) with v :: _ -> v | [] -> "ok") in
    (model, verdict)
  end else
  if g "kind" = "window2" then begin
    let (model, pre, _post) = Hist.run_window2 g obs in
    let v = if (try g "sharedkey" = "1" with _ -> false) then
        (* two entries with one address and one set of keys, one frame reported twice: recorded once per entry *)
        (match Judge.split_obs obs with
         | Some (_, _, dump) ->
           let devs = Judge.parse_dump dump in
           if List.exists (fun dd -> List.length dd.Judge.x_inbox > 1) devs then "bad:sched-copies-recorded-twice" else "ok"
         | None -> "bad:sched-unreadable-observation")
      else Judge.judge_window2 obs pre in
    (* bursts: the application is sent one event per device - each device's uplink once, nobody's twice *)
    let v = if v = "ok" && (try g "pubs" = "1" with _ -> false) then
        (match Judge.split_obs obs with
         | Some (_, ps, _) ->
           let euis = List.filter_map (fun pstr -> match String.split_on_char ':' pstr with _ :: eui :: _ -> Some eui | _ -> None) ps in
           let rows = List.filter_map (fun (_, st) -> st.ds_row) pre.s_tab in
           if List.length (List.sort_uniq compare euis) <> List.length euis then "bad:burst-one-uplink-published-twice"
           else if List.exists (fun r -> not (List.mem (Util.hex_of_n r.d_eui) euis)) rows then "bad:burst-an-uplink-was-not-published-to-its-application"
           else "ok"
         | None -> v)
      else v in
    (model, v)
  end else
  let (model, pre, _post, eui) = Hist.run_sched g obs in
  (model, Judge.judge_sched which g obs pre eui)

let register_all register =
  List.iter (fun c -> register ("sched" ^ c) (s_sched c)) ["C03"; "C04"; "C05"; "C06"; "C07"; "C09"; "C17"];
  register "keygen" s_keygen;
  register "macfg" s_macfg;
  register "gwcodec" s_gwcodec;
  register "registry" Regsuite.s_registry;
  register "codec" Regsuite.s_codec;
  register "router" s_router;
  register "routerconc" s_routerconc;
  register "cmacconc" (fun _g obs -> ("ok", if obs = "ok" then "ok" else "bad:concurrent-cmac-calls-differ-from-the-same-calls-alone"));
  List.iter (fun n -> register ("gw" ^ n) Gwsuite.s_gw) ["C01"; "C02"; "C11"; "C15"; "C16"; "C17"];
  register "histC01" (s_hist Judge.judge_c01);
  register "histC03" (s_hist Judge.judge_c03);
  register "histC07" (s_hist Judge.judge_c07);
  register "histC04" (s_hist Judge.judge_c04);
  register "histC05" (s_hist Judge.judge_c05);
  register "histC02" (s_hist Judge.judge_c02);
  register "histC06" (s_hist Judge.judge_c06);
  register "histC08" (s_hist Judge.judge_c08);
  register "histC09" (s_hist Judge.judge_c09);
  register "histC10" (s_hist Judge.judge_c10);
  register "histC11" (s_hist Judge.judge_c01);
  register "histC17" (s_hist Judge.judge_c17);
  register "stream" (fun _g obs -> ("ok", if obs = "ok" then "ok" else "bad:application-stream-" ^ (List.hd (String.split_on_char ':' obs))));
  register "joinreq" s_joinreq;
  register "joinacc" s_joinacc;
  register "phy" s_phy;
  register "phyenc" s_phyenc;
  register "maccmd" s_maccmd;
  register "macset" s_macset;
  register "aes" s_aes;
  register "cmac" s_cmac;
  register "cipher" s_cipher;
  register "mic" s_mic
