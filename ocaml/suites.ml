(* One handler per correspondence suite: runs the extracted model on the case's
   inputs and the extracted spec oracle on the implementation's observation. *)
open Lospan_model
open Util

let e = aes_enc
let d = aes_dec

(* ---- C14 ---- *)
let s_aes g _obs =
  let k = getb g "key" and b = getb g "block" in
  (hex_of_bytes (aes_enc k b) ^ " " ^ hex_of_bytes (aes_dec k b), "ok")

let s_cmac g obs =
  let k = getb g "key" and m = getb g "msg" and sp = getb g "spare" in
  let (tag, sp') = aescmac e k m sp in
  let model = hex_of_bytes tag ^ " " ^ hex_of_bytes sp' in
  (* oracle: impl tag = RFC 4493 tag, impl spare unchanged *)
  let verdict =
    match String.split_on_char ' ' obs with
    | [itag; isp] ->
      if itag <> hex_of_bytes (rfc4493 e k m) then "bad:rfc4493"
      else if isp <> hex_of_bytes sp then "bad:impure" else "ok"
    | _ -> "bad:shape" in
  (model, verdict)

let mk_frame mt addr fcnt port frm_ =
  let cs = { cs_cmds = []; cs_max = Z0; cs_msg = mt } in
  { mtype = mt; major = N0; f_devaddr = devaddr_of_u32 addr;
    fc = { adr = false; adrackreq = false; ack = false; fpending = false; classb = false; foptslen = N0 };
    fcnt = fcnt; fopts = cs; fport = port; frm = frm_; maccmds = cs; mic = N0;
    jr = { jr_appeui = N0; jr_deveui = N0; jr_devnonce = N0 };
    ja = { ja_appnonce = []; ja_netid = N0; ja_devaddr = devaddr_of_u32 N0; ja_rx1droffset = N0; ja_rx2dr = N0; ja_rxdelay = N0 } }

let s_cipher g obs =
  let nk = getb g "nwk" and ak = getb g "app" in
  let f = mk_frame (getn g "mtype") (n_of_hex (g "addr")) (getn g "fcnt") (getn g "port") (getb g "frm") in
  let f1 = frame_crypt e nk ak f in
  let f2 = frame_crypt e nk ak f1 in
  let model = hex_of_bytes f1.frm ^ " " ^ hex_of_bytes f2.frm ^ " 1" in
  let verdict =
    match String.split_on_char ' ' obs with
    | [_; twice; same] -> if twice <> g "frm" then "bad:involution" else if same <> "1" then "bad:other-fields" else "ok"
    | _ -> "bad:shape" in
  (model, verdict)

let s_mic g _obs =
  let k = getb g "key" in
  let m = data_mic e k (getbool g "up") (n_of_hex (g "addr")) (getn g "fcnt") (getb g "msg") in
  (hex_of_n m, "ok")

(* ---- C13 ---- *)
let show_outcome show = function
  | Ok a -> "ok:" ^ show a
  | Err e -> "err" ^ string_of_int (int_of_n (err_code e))
  | Panic -> "PANIC"
let nlist_of_string s = List.map (fun x -> n_of_int (int_of_string x)) (split_list s)
let string_of_nlist l = "[" ^ String.concat "," (List.map (fun x -> string_of_int (int_of_n x)) l) ^ "]"

let s_maccmd g obs =
  let up = getbool g "up" and cid = getn g "cid" in
  let vs = nlist_of_string (g "fields") in
  let buflen = geti g "buflen" and pos = geti g "pos" and rest = getb g "rest" in
  let c = { c_up = up; c_cid = cid; c_fields = vs } in
  let enc = cmd_encode (nat_of_int buflen) (nat_of_int pos) c in
  let encs = show_outcome hex_of_bytes enc in
  let decs = match enc with
    | Ok bs ->
      (match new_cmd up cid with
       | None -> "nocmd"
       | Some z ->
         let buf = bs @ rest in
         let dl = pos + List.length buf in
         show_outcome (fun c' -> string_of_nlist c'.c_fields ^ ":" ^ string_of_int (int_of_nat (cmd_len c')))
           (cmd_decode (nat_of_int dl) (nat_of_int pos) z buf))
    | _ -> "-" in
  let model = encs ^ " " ^ decs in
  (* oracle: the specified layout, applied to the implementation's own output *)
  let verdict =
    match layout_payload up cid vs with
    | None -> "ok"   (* some value does not fit its field: the specification does not say *)
    | Some p ->
      let want = hex_of_bytes (cid :: p) in
      let l = 1 + List.length p in
      if geti g "len" <> l then "bad:length"
      else if geti g "id" <> int_of_n cid || getbool g "cmdup" <> up then "bad:identity"
      else
      (match String.split_on_char ' ' obs with
       | [e; d] ->
         let fits = buflen > pos + l in
         if fits && e <> "ok:" ^ want then "bad:layout"
         else if (not fits) && String.length e >= 3 && String.sub e 0 3 = "ok:" && e <> "ok:" ^ want then "bad:layout"
         else if String.length e >= 3 && String.sub e 0 3 = "ok:" && List.length rest >= 1
                 && d <> "ok:" ^ string_of_nlist vs ^ ":" ^ string_of_int l then "bad:roundtrip"
         else "ok"
       | _ -> "bad:shape") in
  (model, verdict)

let parse_set_ops s =
  List.map (fun o ->
    match String.split_on_char ':' o with
    | ["r"; cid] -> `Remove (n_of_int (int_of_string cid))
    | ["a"; up; cid; vs] ->
      let vl = if vs = "" then [] else List.map (fun x -> n_of_int (int_of_string x)) (String.split_on_char '/' vs) in
      `Add { c_up = (up = "1"); c_cid = n_of_int (int_of_string cid); c_fields = vl }
    | _ -> failwith ("bad op " ^ o)) (if s = "" then [] else String.split_on_char ',' s)

let s_macset g obs =
  let msg = getn g "msg" and max = geti g "max" in
  let ops = parse_set_ops (g "ops") in
  let s0 = new_set msg (z_of_int max) in
  let (s, res) = List.fold_left (fun (s, acc) o ->
    match o with
    | `Remove cid -> (set_remove s cid, acc ^ "r")
    | `Add c -> let (s', ok) = set_add s c in (s', acc ^ (if ok then "1" else "0"))) (s0, "") ops in
  let lst = String.concat "," (List.map (fun c -> (if c.c_up then "1" else "0") ^ ":" ^ string_of_int (int_of_n c.c_cid)) (set_list s)) in
  let enc = show_outcome hex_of_bytes (set_encode (nat_of_int 300) O s) in
  let model = Printf.sprintf "%s [%s] %d %d %s" res lst (int_of_nat (set_encoded_length s)) (int_of_nat (set_size s)) enc in
  let verdict =
    match String.split_on_char ' ' obs with
    | [_; l; el; _; e] ->
      let l = String.sub l 1 (String.length l - 2) in
      let items = if l = "" then [] else List.map (fun x -> match String.split_on_char ':' x with [u; c] -> (u = "1", int_of_string c) | _ -> failwith "item") (String.split_on_char ',' l) in
      let rec sorted = function a :: (b :: _ as t) -> snd a < snd b && sorted t | _ -> true in
      let up = mtype_uplink msg in
      let el = int_of_string el in
      if not (sorted items) then "bad:set-order"
      else if List.exists (fun (u, _) -> u <> up) items then "bad:set-direction"
      else if el > (if max < 0 then 0 else max) then "bad:set-limit"
      else if String.length e >= 3 && String.sub e 0 3 = "ok:" && (String.length e - 3) / 2 <> el then "bad:set-length"
      else "ok"
    | _ -> "bad:shape" in
  (model, verdict)

let register_all register =
  register "maccmd" s_maccmd;
  register "macset" s_macset;
  register "aes" s_aes;
  register "cmac" s_cmac;
  register "cipher" s_cipher;
  register "mic" s_mic
